#![no_main]
verif::fuzz_check!("C12", verif::props::c12::MockAccountLag);
