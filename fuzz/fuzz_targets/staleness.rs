#![no_main]
verif::fuzz_check!("C09", verif::props::c09::MaxTimestampWins);
