#![no_main]
verif::fuzz_check!("C04", verif::props::c04::IndexNameTranslation);
