#![no_main]
verif::fuzz_check!("C17", verif::props::c17::DatasetSummary);
