#![no_main]
verif::fuzz_check!("C10", verif::props::c10::AuditReplica);
