#![no_main]
verif::fuzz_check!("C19", verif::props::c19::CommandScope);
