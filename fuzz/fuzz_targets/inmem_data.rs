#![no_main]
verif::fuzz_check!("C20", verif::props::c20::InMemoryData);
