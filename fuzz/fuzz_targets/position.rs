#![no_main]
verif::fuzz_check!("C02", verif::props::c02::PositionLedger);
