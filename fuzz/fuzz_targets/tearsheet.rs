#![no_main]
verif::fuzz_check!("C16", verif::props::c16::TearSheetDirect);
