#![no_main]
verif::fuzz_check!("C14", verif::props::c14::ConnectivityModel);
