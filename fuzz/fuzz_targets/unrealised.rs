#![no_main]
verif::fuzz_check!("C15", verif::props::c15::UnrealisedPnl);
