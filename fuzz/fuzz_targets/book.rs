#![no_main]
verif::fuzz_check!("C05", verif::props::c05::BookModel);
