#![no_main]
verif::fuzz_check!("C06", verif::props::c06::BinanceL2Stream);
