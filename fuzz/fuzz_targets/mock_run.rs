#![no_main]
verif::fuzz_check!("C08", verif::props::c08::MockExchangeRun);
