#![no_main]
verif::fuzz_check!("C01", verif::props::c01::OrdersLifecycle);
