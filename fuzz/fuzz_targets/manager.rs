#![no_main]
verif::fuzz_check!("C07", verif::props::c07::ManagerExactlyOnce);
