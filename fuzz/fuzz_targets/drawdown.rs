#![no_main]
verif::fuzz_check!("C18", verif::props::c18::DrawdownScan);
