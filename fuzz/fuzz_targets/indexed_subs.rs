#![no_main]
verif::fuzz_check!("C13", verif::props::c13::IndexedSubscriptions);
