#![no_main]
verif::fuzz_check!("C11", verif::props::c11::IndexTables);
