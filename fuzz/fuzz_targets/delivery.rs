#![no_main]
verif::fuzz_check!("C03", verif::props::c03::RequestDelivery);
