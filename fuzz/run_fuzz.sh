#!/usr/bin/env bash
# usage: fuzz/run_fuzz.sh <ID>   (called by ./check <ID> thorough after the property-based part passed)
# Coverage-guided campaign(s) for the property's libFuzzer target(s). The fuzzer's bytes are decoded
# into the SAME case type and go through the SAME oracle as the property-based engine; a crash
# artefact is the JSON replay file written by the target, and it is re-run through the stable
# `verif <ID> replay` build before anything is reported.
# exit 0 = nothing found (or no target / no nightly toolchain: noted in the evidence), 1 = confirmed
# violation, 2 = inconclusive.
set -u
ID="$1"
HERE="$(cd "$(dirname "${BASH_SOURCE[0]}")/.." && pwd)"
SEED="${VERIF_SEED:-0}"
RUNS_PER_JOB="${VERIF_FUZZ_RUNS:-150000}"
JOBS="${VERIF_FUZZ_JOBS:-8}"
TARGETS=$(python3 -c "import json,sys; t=json.load(open('$HERE/fuzz/targets.json')); print(' '.join(k for k,v in t.items() if v=='$ID'))")
[ -z "$TARGETS" ] && exit 0
note() { python3 "$HERE/tools/merge_fuzz_evidence.py" "$ID" note "$1"; }
if ! cargo +nightly fuzz --version >/dev/null 2>&1; then
  note "coverage-guided part skipped: cargo +nightly fuzz not available"; exit 0
fi
export CARGO_NET_OFFLINE=true
if ! (cd "$HERE/fuzz" && cargo +nightly fuzz build -s none --fuzz-dir "$HERE/fuzz" > "$HERE/fuzz/build.log" 2>&1); then
  echo "INCONCLUSIVE property=$ID fuzz target build failed (see fuzz/build.log)"; tail -n 15 "$HERE/fuzz/build.log"; exit 2
fi
BIN="$HERE/fuzz/target/x86_64-unknown-linux-gnu/release"
for T in $TARGETS; do
  WORK="$HERE/fuzz/work/$T"; rm -rf "$WORK"; mkdir -p "$WORK/corpus"
  # deterministic seed corpus (random bytes of several lengths) + committed seeds, if any
  python3 - "$WORK/corpus" "$SEED" <<'PY'
import random, sys, os
d, seed = sys.argv[1], int(sys.argv[2])
r = random.Random(seed * 7919 + 17)
for i, n in enumerate([16, 64, 128, 256, 384, 512, 768, 1024]):
    open(os.path.join(d, f"seed{i}"), "wb").write(bytes(r.getrandbits(8) for _ in range(n)))
PY
  [ -d "$HERE/corpus/$T" ] && cp "$HERE/corpus/$T"/* "$WORK/corpus/" 2>/dev/null
  rm -f "$HERE/replays/$ID-"*"-fuzz.json"
  START=$(date +%s)
  ( cd "$WORK" && "$BIN/$T" corpus -runs="$RUNS_PER_JOB" -seed=$((SEED + 1)) -len_control=0 -max_len=1024 -artifact_prefix="$WORK/" -jobs="$JOBS" -workers="$JOBS" > "$WORK/driver.log" 2>&1 )
  RC=$?
  END=$(date +%s)
  python3 "$HERE/tools/merge_fuzz_evidence.py" "$ID" stats "$T" "$WORK" $((END - START))
  REPLAY=$(ls "$HERE/replays/$ID-"*"-fuzz.json" 2>/dev/null | head -1)
  if [ -n "$REPLAY" ]; then
    OUT=$("$HERE/harness/target/debug/verif" "$ID" replay "$REPLAY"); RRC=$?
    if [ $RRC -eq 1 ]; then echo "$OUT"; exit 1; fi
    echo "INCONCLUSIVE property=$ID libFuzzer target $T reported a failure ($REPLAY) that the stable replay build does not reproduce"; exit 2
  fi
  if [ $RC -ne 0 ] && grep -q "ERROR: libFuzzer" "$WORK"/fuzz-*.log 2>/dev/null; then
    echo "INCONCLUSIVE property=$ID libFuzzer target $T stopped without an oracle failure (see $WORK)"; exit 2
  fi
done
exit 0
