#!/usr/bin/env bash
# usage: tools/mutant.sh <ID[,ID..]> <repo-relative-file> <exact-old-text> <new-text>
# Applies a one-off textual mutation to /repo, runs the quick check(s), and always reverts.
set -u
IDS="$1"; FILE="$2"; OLD="$3"; NEW="$4"
cd /repo || exit 2
if ! git diff --quiet -- "$FILE"; then echo "refusing: $FILE has uncommitted changes"; exit 2; fi
python3 - "$FILE" "$OLD" "$NEW" <<'PY' || { git checkout -- "$FILE"; exit 2; }
import sys
p,old,new=sys.argv[1:4]
s=open(p).read()
n=s.count(old)
if n!=1:
    print(f"mutation site matches {n} times (need exactly 1)"); sys.exit(1)
open(p,'w').write(s.replace(old,new))
PY
trap 'git -C /repo checkout -- "$FILE"' EXIT
for ID in ${IDS//,/ }; do
  out=$(cd /verif && VERIF_EVIDENCE_DIR=/tmp/verif-mutant-evidence VERIF_SEED=${VERIF_SEED:-0} ./check "$ID" quick 2>&1); rc=$?
  echo "[$ID] rc=$rc :: $(echo "$out" | grep -E 'VIOLATION|check=|INCONCLUSIVE|^OK|error' | head -3 | tr '\n' ' ' | cut -c1-400)"
done
