#!/usr/bin/env python3
"""Builds the table of DESIGN.md section 9 from thorough_all.log and thorough-evidence/*.json."""
import json, re, sys
walls = {}
for l in open('/verif/thorough_all.log'):
    m = re.match(r'(C\d\d) rc=(\d+) wall=(\d+)s', l)
    if m: walls[m.group(1)] = (int(m.group(2)), int(m.group(3)))
print("| property | exit | generated cases | distinct non-trivial | pbt wall s | libFuzzer executions | targets (edge coverage) | total wall s |")
print("|---|---|---|---|---|---|---|---|")
tg = tf = tw = 0
for i in range(1, 21):
    pid = "C%02d" % i
    e = json.load(open('/verif/thorough-evidence/%s.json' % pid)); c = e['coverage']
    fz = c.get('fuzz', {}).get('targets', {})
    rc, wall = walls[pid]
    tg += c['evaluations']; tf += c.get('fuzz_executions', 0); tw += wall
    print("| %s | %d | %s | %s | %.1f | %s | %s | %d |" % (pid, rc, f"{c['evaluations']:,}", f"{c['distinct_nontrivial']:,}", e['wall_s'],
          f"{c.get('fuzz_executions', 0):,}", ", ".join("%s %d" % (t, v['edge_coverage']) for t, v in fz.items()), wall))
print()
print("Totals: %s generated cases, %s coverage-guided executions, %d min wall." % (f"{tg:,}", f"{tf:,}", round(tw / 60)))
