#!/usr/bin/env python3
"""Sensitivity sweep: applies every textual mutant of /verif/mutants/mutants.json to /repo (one at a
time, always reverted), runs the quick check(s) of the properties it is aimed at with evidence and
replays diverted, and writes /verif/mutants/RESULTS.md + results.json.

usage: tools/run_mutants.py [ID ...]      (no ids = all)
A mutant whose site no longer matches exactly once is reported as 'stale', never silently skipped."""
import json, os, subprocess, sys, time
HERE = os.path.dirname(os.path.dirname(os.path.abspath(__file__)))
REPO = "/repo"
want = set(sys.argv[1:])
muts = json.load(open(os.path.join(HERE, "mutants", "mutants.json")))
if subprocess.run(["git", "-C", REPO, "diff", "--quiet"]).returncode != 0:
    sys.exit("/repo has uncommitted changes")
env = dict(os.environ, VERIF_EVIDENCE_DIR="/tmp/verif-mutant-evidence", VERIF_REPLAY_DIR="/tmp/verif-mutant-replays", VERIF_SEED=os.environ.get("VERIF_SEED", "0"))
results = []
for m in muts:
    ids = m["ids"].split(",")
    if want and not (want & set(ids)):
        continue
    path = os.path.join(REPO, m["file"])
    src = open(path).read()
    n = src.count(m["old"])
    row = {"n": m["n"], "ids": m["ids"], "file": m["file"], "old": m["old"], "new": m["new"], "verdicts": {}}
    if n != 1:
        row["verdicts"] = {i: {"status": "stale", "detail": f"site matches {n} times"} for i in ids}
        results.append(row); print(f"#{m['n']} {m['ids']} STALE"); continue
    try:
        open(path, "w").write(src.replace(m["old"], m["new"]))
        for i in ids:
            t = time.time()
            p = subprocess.run(["./check", i, "quick"], cwd=HERE, env=env, capture_output=True, text=True)
            lines = [l.strip() for l in (p.stdout + p.stderr).splitlines()]
            sig = next((l for l in lines if l.startswith("check=")), "")
            err = next((l for l in lines if l.startswith("error")), "")
            status = {0: "MISSED", 1: "caught"}.get(p.returncode, "inconclusive")
            if p.returncode == 2 and err:
                status = "does-not-compile"
            row["verdicts"][i] = {"status": status, "rc": p.returncode, "detail": (sig or err)[:300], "wall_s": round(time.time() - t, 1)}
            print(f"#{m['n']} {i} {status} {sig[:140]}")
    finally:
        subprocess.run(["git", "-C", REPO, "checkout", "--", m["file"]], check=True)
    results.append(row)
out = os.path.join(HERE, "mutants")
old = {}
if want and os.path.exists(os.path.join(out, "results.json")):
    old = {r["n"]: r for r in json.load(open(os.path.join(out, "results.json")))}
for r in results:
    old[r["n"]] = r
allr = [old[k] for k in sorted(old)] if want else results
json.dump(allr, open(os.path.join(out, "results.json"), "w"), indent=1)
with open(os.path.join(out, "RESULTS.md"), "w") as f:
    tot = sum(len(r["verdicts"]) for r in allr)
    caught = sum(1 for r in allr for v in r["verdicts"].values() if v["status"] == "caught")
    f.write(f"# Mutant sweep (tools/run_mutants.py, quick tier, VERIF_SEED={env['VERIF_SEED']})\n\n{caught} of {tot} (mutant, property) runs caught.\n\n| # | property | file | change | verdict | first signature |\n|---|---|---|---|---|---|\n")
    for r in allr:
        for i, v in r["verdicts"].items():
            def one(s):
                s = " ".join(s.split()); return (s[:70] + "…") if len(s) > 70 else s
            note = next((m.get("note", "") for m in muts if m["n"] == r["n"]), "")
            status = v["status"] + (" (" + note + ")" if note and v["status"] == "MISSED" else "")
            f.write(f"| {r['n']} | {i} | {r['file'].split('/src/')[-1]} | `{one(r['old']).replace('|','¦')}` → `{one(r['new']).replace('|','¦')}` | {status} | {v['detail'].replace('|','¦')[:160]} |\n")
print("written", os.path.join(out, "RESULTS.md"))
