#!/usr/bin/env python3
"""Prints a markdown table of every seeded change under /verif/seeded (from meta.json): what it is,
whether it was confirmed as a valid seed, the first verdict of ./check and the current one."""
import json, glob, os, sys
rows = []
for mp in sorted(glob.glob(os.path.join(os.path.dirname(os.path.dirname(os.path.abspath(__file__))), "seeded", "*", "meta.json"))):
    m = json.load(open(mp)); name = os.path.basename(os.path.dirname(mp))
    c = m.get("confirmed_by_me", {}); v = m.get("verif_check", {}); f = m.get("first_verdict")
    valid = c.get("demo_on_clean_tree_exit") == 0 and c.get("demo_with_change_exit", 0) != 0 and c.get("existing_suite_new_failures", 1) == 0
    sig = ""
    for l in v.get("output", []):
        if "check=" in l:
            parts = l.strip().split(" :: ")[0].replace("check=", "").replace(" signature=", " :: ")
            sig = parts; break
    first = "caught" if (f is None and v.get("caught")) else ("missed" if f is not None else ("MISSED" if not v.get("caught") else ""))
    now = "caught" if v.get("caught") else "MISSED"
    summary = " ".join(m.get("summary", "").split())
    rows.append((name, valid, first, now, sig, summary[:170] + ("…" if len(summary) > 170 else "")))
only = sys.argv[1:] 
print("| seed | valid | first run | now | check :: first signature | change |\n|---|---|---|---|---|---|")
for r in rows:
    if only and not any(r[0].endswith(x) for x in only): continue
    print(f"| {r[0]} | {'yes' if r[1] else 'NO'} | {r[2]} | {r[3]} | {r[4]} | {r[5].replace('|','¦')} |")
print(f"\n{sum(1 for r in rows if r[3]=='caught')} of {len(rows)} caught now; {sum(1 for r in rows if r[2]=='missed')} were missed on the first run.")
