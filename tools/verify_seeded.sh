#!/usr/bin/env bash
# usage: tools/verify_seeded.sh <ID> <A|B>
# Confirms a seeded change delivered by a sub-agent in /tmp/wt/<ID>/seeded (compiles, existing suite
# passes, demo fails with / passes without), then runs /verif's check against it in /repo (applied and
# reverted straight afterwards) and stores everything under /verif/seeded/<ID>-<k>/.
set -u
ID="$1"; K="$2"
WT=/tmp/wt/$ID; S=$WT/seeded
OUT=/verif/seeded/$ID-$K; mkdir -p "$OUT"
PATCH=$S/patch_$K.diff; DEMO=$S/demo_$K.rs; META=$S/meta_$K.json
[ -f "$PATCH" ] && [ -f "$DEMO" ] || { echo "$ID-$K: deliverables missing"; exit 2; }
CRATE=$(python3 -c "import json;print(json.load(open('$META')).get('demo_crate','barter'))" 2>/dev/null || echo barter)
export CARGO_NET_OFFLINE=true CARGO_PROFILE_DEV_DEBUG=0 CARGO_TARGET_DIR=$WT/target
cd "$WT" || exit 2
git checkout -q -- . ; git clean -fdq -e seeded -e target
mkdir -p "$CRATE/tests"; cp "$DEMO" "$CRATE/tests/seeded_demo_$K.rs"
# 1. demo on the clean tree
cargo test -p "$CRATE" --test "seeded_demo_$K" --offline > "$OUT/demo_clean.log" 2>&1; DEMO_CLEAN=$?
# 2. with the change
git apply "$PATCH" || { echo "$ID-$K: patch does not apply"; exit 2; }
cargo test -p "$CRATE" --test "seeded_demo_$K" --offline > "$OUT/demo_patched.log" 2>&1; DEMO_PATCHED=$?
rm -f "$CRATE/tests/seeded_demo_$K.rs"; rmdir "$CRATE/tests" 2>/dev/null
cargo nextest run --workspace --lib --tests --no-fail-fast --offline > "$OUT/suite_patched.log" 2>&1
SUITE_LINE=$(grep -E "tests run:" "$OUT/suite_patched.log" | tail -1)
FAILED=$(grep -E "^\s+FAIL " "$OUT/suite_patched.log" | grep -v test_historical_clock_time_delta_calculation | sort -u | wc -l)
git checkout -q -- . ; git clean -fdq -e seeded -e target
unset CARGO_TARGET_DIR CARGO_PROFILE_DEV_DEBUG
# 3. /verif's check against the change, in /repo
cd /repo && git diff --quiet || { echo "/repo is dirty"; exit 2; }
git apply "$PATCH" || { echo "$ID-$K: patch does not apply to /repo"; exit 2; }
CHECK_OUT=$(cd /verif && VERIF_EVIDENCE_DIR=/tmp/verif-seeded-evidence VERIF_REPLAY_DIR="$OUT/replays" ./check "$ID" quick 2>&1); CHECK_RC=$?
git checkout -q -- .
cp "$PATCH" "$OUT/patch.diff"; cp "$DEMO" "$OUT/demo.rs"
python3 - "$META" "$OUT/meta.json" "$ID" "$K" "$DEMO_CLEAN" "$DEMO_PATCHED" "$SUITE_LINE" "$FAILED" "$CHECK_RC" "$CHECK_OUT" <<'PY'
import json, sys
src, dst, pid, k, dc, dp, suite, failed, rc, out = sys.argv[1:11]
try: m = json.load(open(src))
except Exception: m = {}
lines = [l for l in out.splitlines() if l.startswith("VIOLATION") or l.strip().startswith("check=") or l.startswith("OK") or l.startswith("INCONCLUSIVE")]
m.update({"property": pid, "variant": k,
          "confirmed_by_me": {"demo_on_clean_tree_exit": int(dc), "demo_with_change_exit": int(dp), "existing_suite_with_change": suite.strip(), "existing_suite_new_failures": int(failed),
                              "commands": ["cargo test -p <crate> --test seeded_demo (clean / patched)", "cargo nextest run --workspace --lib --tests --no-fail-fast --offline (patched)", "git -C /repo apply patch.diff; ./check %s quick; git -C /repo checkout -- ." % pid]},
          "verif_check": {"cmd": "./check %s quick" % pid, "exit": int(rc), "caught": int(rc) == 1, "output": [l[:400] for l in lines[:4]]}})
json.dump(m, open(dst, "w"), indent=1)
ok = int(dc) == 0 and int(dp) != 0 and int(failed) == 0
print(f"{pid}-{k}: valid_seed={ok} demo_clean={dc} demo_patched={dp} suite='{suite.strip()}' new_failures={failed} check_rc={rc} :: {(lines[1] if len(lines)>1 else (lines[0] if lines else ''))[:220]}")
PY
