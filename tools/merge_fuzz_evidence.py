#!/usr/bin/env python3
"""Adds the coverage-guided campaign's measured numbers to /verif/evidence/<ID>.json (written a
moment earlier by the property-based part of the same `./check <ID> thorough` run)."""
import glob, json, os, re, sys
pid, mode = sys.argv[1], sys.argv[2]
root = os.environ.get("VERIF_EVIDENCE_DIR", os.path.join(os.path.dirname(os.path.dirname(os.path.abspath(__file__))), "evidence"))
path = os.path.join(root, pid + ".json")
try:
    ev = json.load(open(path))
except Exception:
    sys.exit(0)
cov = ev.setdefault("coverage", {})
fz = cov.setdefault("fuzz", {"engine": "libFuzzer via cargo-fuzz; bytes -> serde byte decoder -> same Case type -> same oracle", "targets": {}})
if mode == "note":
    fz["note"] = sys.argv[3]
else:
    target, work, secs = sys.argv[3], sys.argv[4], int(sys.argv[5])
    execs = 0; best_cov = 0; ft = 0; crashes = 0
    for log in glob.glob(os.path.join(work, "fuzz-*.log")):
        txt = open(log, errors="replace").read()
        m = re.findall(r"Done (\d+) runs", txt)
        if m: execs += int(m[-1])
        else:
            m = re.findall(r"#(\d+)\s", txt)
            if m: execs += int(m[-1])
        for c, f in re.findall(r"cov: (\d+) ft: (\d+)", txt):
            best_cov = max(best_cov, int(c)); ft = max(ft, int(f))
        if "FUZZ-FAILURE" in txt: crashes += 1
    corpus = len(os.listdir(os.path.join(work, "corpus"))) if os.path.isdir(os.path.join(work, "corpus")) else 0
    fz["targets"][target] = {"executions": execs, "edge_coverage": best_cov, "features": ft, "corpus_files": corpus, "oracle_failures": crashes, "wall_s": secs}
    cov["fuzz_executions"] = sum(t["executions"] for t in fz["targets"].values())
json.dump(ev, open(path, "w"), indent=2)
