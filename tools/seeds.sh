#!/usr/bin/env bash
# usage: tools/seeds.sh <tier> <seed>...   — runs every property's check for each seed; prints non-OK results
# (evidence is diverted so that sweeps never overwrite /verif/evidence)
TIER="$1"; shift
cd "$(dirname "$0")/.." || exit 2
export VERIF_EVIDENCE_DIR=/tmp/verif-seed-sweep-evidence VERIF_REPLAY_DIR=/tmp/verif-seed-sweep-replays
# always test the current /repo tree: rebuild first (a previous mutant / seeded run may have left a
# binary built from a modified tree)
(cd harness && CARGO_NET_OFFLINE=true cargo build --offline -q --bin verif) || { echo "build failed"; exit 2; }
bad=0
for seed in "$@"; do
  for i in 01 02 03 04 05 06 07 08 09 10 11 12 13 14 15 16 17 18 19 20; do
    out=$(VERIF_SEED=$seed ./harness/target/debug/verif C$i "$TIER" 2>&1); rc=$?
    if [ $rc -ne 0 ]; then bad=$((bad+1)); echo "seed=$seed C$i rc=$rc :: $(echo "$out" | head -3 | tr '\n' ' ' | cut -c1-600)"; fi
  done
  echo "seed $seed done (non-zero so far: $bad)"
done
exit $bad
