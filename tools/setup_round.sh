#!/usr/bin/env bash
# usage: tools/setup_round.sh <letter> <ID>...   — scratch worktree /tmp/wt/<ID> with seeded/PROPERTY.txt,
# seeded/ALREADY_TRIED.txt (summaries of every stored change for that property) and seeded/PROMPT.txt.
set -eu
L="$1"; shift
for ID in "$@"; do
  WT=/tmp/wt/$ID
  git -C /repo worktree add --detach -f "$WT" HEAD >/dev/null 2>&1
  mkdir -p "$WT/seeded"
  python3 - "$ID" "$WT" "$L" <<'PY'
import json, sys, glob
pid, wt, L = sys.argv[1:4]
for l in open('/verif/properties.jsonl'):
    d = json.loads(l)
    if d['id'] == pid:
        open(wt + '/seeded/PROPERTY.txt', 'w').write(json.dumps(d, indent=1) + "\n")
tried = []
for m in sorted(glob.glob('/verif/seeded/%s-*/meta.json' % pid)):
    j = json.load(open(m))
    tried.append("- [%s] %s (needs: %s)" % (m.split('/')[-2], j.get('summary', '')[:600], j.get('needs_to_manifest', '')[:300]))
open(wt + '/seeded/ALREADY_TRIED.txt', 'w').write("\n".join(tried) + "\n")
p = open('/verif/seeded/AGENT_PROMPT_round3.txt').read().replace('__DIR__', wt)
p = p.replace('produce TWO different, realistic source changes ("seeded defects")', 'produce ONE realistic source change (a "seeded defect")')
p = p.replace('each of which BREAKS', 'which BREAKS').replace('The two changes must be independent of one another (different root cause / different code site), each applied separately to the clean tree.\n', '')
p = p.replace('For each change k in {E, F} (file names patch_E.diff, demo_E.rs, meta_E.json, patch_F.diff, ...) deliver', 'With k = %s (file names patch_%s.diff, demo_%s.rs, meta_%s.json) deliver' % (L, L, L, L))
p = p.replace('for each change, one paragraph', 'one paragraph')
open(wt + '/seeded/PROMPT.txt', 'w').write(p)
PY
done
echo done
