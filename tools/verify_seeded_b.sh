#!/usr/bin/env bash
# usage: tools/verify_seeded_b.sh <ID> <k>  (part B: /verif's check against the change in /repo; serial)
set -u
ID="$1"; K="$2"
OUT=/verif/seeded/$ID-$K; PATCH=$OUT/patch.diff; META=$OUT/meta_agent.json
IFS='|' read -r DEMO_CLEAN DEMO_PATCHED SUITE_LINE FAILED < "$OUT/partA.txt"
cd /repo && git diff --quiet || { echo "/repo is dirty"; exit 2; }
git apply "$PATCH" || { echo "$ID-$K: patch does not apply to /repo"; exit 2; }
CHECK_OUT=$(cd /verif && VERIF_EVIDENCE_DIR=/tmp/verif-seeded-evidence VERIF_REPLAY_DIR="$OUT/replays" ./check "$ID" quick 2>&1); CHECK_RC=$?
git checkout -q -- .
python3 - "$META" "$OUT/meta.json" "$ID" "$K" "$DEMO_CLEAN" "$DEMO_PATCHED" "$SUITE_LINE" "$FAILED" "$CHECK_RC" "$CHECK_OUT" <<'PY'
import json, sys
src, dst, pid, k, dc, dp, suite, failed, rc, out = sys.argv[1:11]
try: m = json.load(open(src))
except Exception: m = {}
lines = [l for l in out.splitlines() if l.startswith("VIOLATION") or l.strip().startswith("check=") or l.startswith("OK") or l.startswith("INCONCLUSIVE")]
m.update({"property": pid, "variant": k,
          "confirmed_by_me": {"demo_on_clean_tree_exit": int(dc), "demo_with_change_exit": int(dp), "existing_suite_with_change": suite.strip(), "existing_suite_new_failures": int(failed),
                              "commands": ["cargo test -p <crate> --test seeded_demo (clean / patched)", "cargo nextest run --workspace --lib --tests --no-fail-fast --offline (patched)", "git -C /repo apply patch.diff; ./check %s quick; git -C /repo checkout -- ." % pid]},
          "verif_check": {"cmd": "./check %s quick" % pid, "exit": int(rc), "caught": int(rc) == 1, "output": [l[:400] for l in lines[:4]]}})
json.dump(m, open(dst, "w"), indent=1)
ok = int(dc) == 0 and int(dp) != 0 and int(failed) == 0
print(f"{pid}-{k}: valid_seed={ok} demo_clean={dc} demo_patched={dp} suite='{suite.strip()}' new_failures={failed} check_rc={rc} :: {(lines[1] if len(lines)>1 else (lines[0] if lines else ''))[:220]}")
PY
