#!/usr/bin/env bash
# usage: tools/recheck_seeded.sh <ID>-<k> [quick|thorough]
# Re-runs /verif's check against a stored seeded change (/verif/seeded/<ID>-<k>/patch.diff): applies it
# to /repo, runs the check with evidence and replays diverted, reverts /repo straight afterwards and
# updates meta.json (the first verdict is kept under "first_verdict").
set -u
NAME="$1"; TIER="${2:-quick}"; ID="${NAME%%-*}"
OUT=/verif/seeded/$NAME; PATCH=$OUT/patch.diff
[ -f "$PATCH" ] || { echo "$NAME: no patch"; exit 2; }
cd /repo && git diff --quiet || { echo "/repo is dirty"; exit 2; }
git apply "$PATCH" || { echo "$NAME: patch does not apply to /repo"; exit 2; }
CHECK_OUT=$(cd /verif && VERIF_EVIDENCE_DIR=/tmp/verif-seeded-evidence VERIF_REPLAY_DIR="$OUT/replays" ./check "$ID" "$TIER" 2>&1); CHECK_RC=$?
git checkout -q -- .
python3 - "$OUT/meta.json" "$ID" "$TIER" "$CHECK_RC" "$CHECK_OUT" <<'PY'
import json, sys
dst, pid, tier, rc, out = sys.argv[1:6]
m = json.load(open(dst))
lines = [l for l in out.splitlines() if l.startswith("VIOLATION") or l.strip().startswith("check=") or l.startswith("OK") or l.startswith("INCONCLUSIVE")]
new = {"cmd": "./check %s %s" % (pid, tier), "exit": int(rc), "caught": int(rc) == 1, "output": [l[:400] for l in lines[:4]]}
old = m.get("verif_check")
if old and "first_verdict" not in m and not old.get("caught"):
    m["first_verdict"] = old
m["verif_check"] = new
json.dump(m, open(dst, "w"), indent=1)
print(f"{dst.split('/')[-2]}: check_rc={rc} :: {(lines[1] if len(lines)>1 else (lines[0] if lines else ''))[:260]}")
PY
