#!/usr/bin/env bash
# usage: tools/verify_seeded_a.sh <ID> <k>  (part A: worktree-only confirmation, parallel-safe; part B = verify_seeded_b.sh)
# Confirms a seeded change delivered by a sub-agent in /tmp/wt/<ID>/seeded (compiles, existing suite
# passes, demo fails with / passes without), then runs /verif's check against it in /repo (applied and
# reverted straight afterwards) and stores everything under /verif/seeded/<ID>-<k>/.
set -u
ID="$1"; K="$2"
WT=/tmp/wt/$ID; S=$WT/seeded
OUT=/verif/seeded/$ID-$K; mkdir -p "$OUT"
PATCH=$S/patch_$K.diff; DEMO=$S/demo_$K.rs; META=$S/meta_$K.json
[ -f "$PATCH" ] && [ -f "$DEMO" ] || { echo "$ID-$K: deliverables missing"; exit 2; }
CRATE=$(python3 -c "import json;print(json.load(open('$META')).get('demo_crate','barter'))" 2>/dev/null || echo barter)
export CARGO_NET_OFFLINE=true CARGO_PROFILE_DEV_DEBUG=0 CARGO_TARGET_DIR=$WT/target
cd "$WT" || exit 2
git checkout -q -- . ; git clean -fdq -e seeded -e target
mkdir -p "$CRATE/tests"; cp "$DEMO" "$CRATE/tests/seeded_demo_$K.rs"
# 1. demo on the clean tree
cargo test -p "$CRATE" --test "seeded_demo_$K" --offline > "$OUT/demo_clean.log" 2>&1; DEMO_CLEAN=$?
# 2. with the change
git apply "$PATCH" || { echo "$ID-$K: patch does not apply"; exit 2; }
cargo test -p "$CRATE" --test "seeded_demo_$K" --offline > "$OUT/demo_patched.log" 2>&1; DEMO_PATCHED=$?
rm -f "$CRATE/tests/seeded_demo_$K.rs"; rmdir "$CRATE/tests" 2>/dev/null
cargo nextest run --workspace --lib --tests --no-fail-fast --offline > "$OUT/suite_patched.log" 2>&1
SUITE_LINE=$(grep -E "tests run:" "$OUT/suite_patched.log" | tail -1)
FAILED=$(grep -E "^\s+FAIL " "$OUT/suite_patched.log" | grep -v test_historical_clock_time_delta_calculation | sort -u | wc -l)
git checkout -q -- . ; git clean -fdq -e seeded -e target
unset CARGO_TARGET_DIR CARGO_PROFILE_DEV_DEBUG
cp "$PATCH" "$OUT/patch.diff"; cp "$DEMO" "$OUT/demo.rs"; cp "$META" "$OUT/meta_agent.json" 2>/dev/null
echo "$DEMO_CLEAN|$DEMO_PATCHED|$SUITE_LINE|$FAILED" > "$OUT/partA.txt"; echo "$ID-$K partA: demo_clean=$DEMO_CLEAN demo_patched=$DEMO_PATCHED failed=$FAILED $SUITE_LINE"
