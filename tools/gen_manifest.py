#!/usr/bin/env python3
"""Regenerates /verif/MANIFEST.json from the table below (kept in one place so the manifest is
always valid and in step with what is built)."""
import json, os
HERE = os.path.dirname(os.path.dirname(os.path.abspath(__file__)))
ALL = ["C%02d" % i for i in range(1, 21)]

# id -> (technique, level text, level note, design ref)
CLAIMED = json.load(open(os.path.join(HERE, "tools", "claimed.json")))
PENDING_REASON = "check not built yet in this round; planned per DESIGN.md section 3 (will be claimed once its generated check exists and is silent on the unchanged tree)"

def main():
    checks = []
    for pid in ALL:
        if pid not in CLAIMED: continue
        c = CLAIMED[pid]; tech, text, note, ref = c['technique'], c['text'], c['note'], c['ref']
        checks.append({
            "property_id": pid,
            "quick_cmd": f"./check {pid} quick",
            "thorough_cmd": f"./check {pid} thorough",
            "evidence_file": f"/verif/evidence/{pid}.json",
            "replay_cmd_template": f"./check {pid} replay {{path}}",
            "engine": "pbt",
            "level_claimed": {"category": "exploration", "text": text, "design_ref": ref},
            "level_note": note,
            "technique": tech,
        })
    extra_na = json.load(open(os.path.join(HERE, "tools", "not_applicable.json"))) if os.path.exists(os.path.join(HERE, "tools", "not_applicable.json")) else {}
    na = []
    for pid in ALL:
        if pid in CLAIMED: continue
        na.append({"property_id": pid, "reason": extra_na.get(pid, PENDING_REASON)})
    hooks = json.load(open(os.path.join(HERE, "tools", "hooks.json")))
    m = {
        "version": 1,
        "setup_cmd": "cd /verif/harness && CARGO_NET_OFFLINE=true cargo build --offline --bin verif",
        "hooks": hooks,
        "engines": [
            {"name": "pbt", "path": "/verif/harness", "serves_properties": sorted(CLAIMED.keys()),
             "kind_free_text": "proptest TestRunner driven from a binary (seeded from VERIF_SEED, failure_persistence off), reference models/oracles in Rust, small-scope exhaustive enumeration, paused tokio clock for async properties"},
            {"name": "fuzz", "path": "/verif/fuzz", "serves_properties": sorted(set(json.load(open(os.path.join(HERE, "fuzz", "targets.json"))).values())),
             "kind_free_text": "cargo-fuzz / libFuzzer targets (thorough tier only, after the generated search): input bytes are decoded by a serde byte deserializer into the same Case types, projected into the sound domain (Check::normalise) and judged by the same oracle as the pbt engine; a failure is written as the same replay JSON and confirmed through ./check <ID> replay"},
        ],
        "checks": checks,
        "not_applicable": na,
        "notes": "All checks: ./check <ID> quick|thorough|replay <file>. exit 0 held / 1 VIOLATION / 2 inconclusive (build failure, watchdog). known findings: /verif/known_findings.json.",
    }
    json.dump(m, open(os.path.join(HERE, "MANIFEST.json"), "w"), indent=1)
    print("claimed:", len(checks), "not_applicable:", len(na))
main()
