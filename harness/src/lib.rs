pub mod framework;
pub mod props;
