pub mod bytede;
pub mod framework;
pub mod fuzzing;
pub mod props;
