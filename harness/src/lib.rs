#![allow(unused_imports, unused_mut, unused_variables, private_interfaces, dead_code)]
pub mod bytede;
pub mod framework;
pub mod fuzzing;
pub mod props;
