//! Glue for coverage-guided fuzzing (libFuzzer via cargo-fuzz): the fuzzer's bytes are decoded
//! into the check's own `Case` type by a serde deserializer over raw bytes (`bytede`), projected
//! into the sound input domain by `Check::normalise`, and run through the same oracle as the
//! property-based engine. A failure is written as the same kind of replay file before the target
//! aborts, so it is replayed and confirmed by the stable `verif <ID> replay` build.
//!
//! (proptest's pass-through RNG was tried first and rejected: it yields zeros once its bytes are
//! used up and every forking combinator halves what is left; with rand 0.9 a zero stream makes
//! uniform sampling spin forever.)

use crate::framework::{Check, KnownFindings, Outcome, VERIF_ROOT, eval_guarded};
use serde_json::json;

pub fn fuzz_one<C: Check>(property: &str, known: &KnownFindings, data: &[u8]) {
    if data.len() < 4 {
        return;
    }
    let Some(case) = crate::bytede::decode::<C::Case>(data) else { return };
    let case = C::normalise(case);
    crate::framework::install_panic_hook();
    let rep = eval_guarded::<C>(&case);
    if let Outcome::Fail { sig, msg } = rep.outcome {
        if known.is_known(property, &sig).is_some() {
            return;
        }
        if sig == crate::framework::HARNESS_PANIC {
            // a bug of the harness on an input outside the generators' domain: not a violation
            eprintln!("FUZZ-HARNESS-PANIC property={property} :: {msg}");
            return;
        }
        let dir = std::env::var("VERIF_REPLAY_DIR").unwrap_or_else(|_| format!("{VERIF_ROOT}/replays"));
        let _ = std::fs::create_dir_all(&dir);
        let path = format!("{dir}/{property}-{}-fuzz.json", C::NAME);
        let doc = json!({"property": property, "check": C::NAME, "seed": 0, "signature": sig, "message": msg, "case": serde_json::to_value(&case).unwrap_or_default(), "found_by": "libFuzzer"});
        let _ = std::fs::write(&path, serde_json::to_string_pretty(&doc).unwrap());
        eprintln!("FUZZ-FAILURE property={property} replay={path} :: {sig} :: {msg}");
        panic!("oracle failure: {sig}");
    }
}

/// Define a libFuzzer entry point for one check.
#[macro_export]
macro_rules! fuzz_check {
    ($property:expr, $check:ty) => {
        thread_local! {
            static KNOWN: $crate::framework::KnownFindings = $crate::framework::KnownFindings::load();
        }
        libfuzzer_sys::fuzz_target!(|data: &[u8]| {
            KNOWN.with(|k| $crate::fuzzing::fuzz_one::<$check>($property, k, data));
        });
    };
}
