//! A serde `Deserializer` over raw fuzzer bytes: turns a libFuzzer input into any of the
//! harness's `Case` types (they all derive `Deserialize`), so coverage-guided mutation of bytes is
//! structure-aware for free. Running out of bytes yields zeros (smallest values / empty
//! collections). Sequence lengths are capped.

use serde::de::{self, DeserializeSeed, EnumAccess, IntoDeserializer, MapAccess, SeqAccess, VariantAccess, Visitor};
use std::fmt;

pub const SEQ_CAP: usize = 48;

#[derive(Debug)]
pub struct Error(String);
impl fmt::Display for Error {
    fn fmt(&self, f: &mut fmt::Formatter<'_>) -> fmt::Result {
        f.write_str(&self.0)
    }
}
impl std::error::Error for Error {}
impl de::Error for Error {
    fn custom<T: fmt::Display>(msg: T) -> Self {
        Error(msg.to_string())
    }
}

pub struct ByteDe<'a> {
    data: &'a [u8],
    pos: usize,
    depth: usize,
}

impl<'a> ByteDe<'a> {
    pub fn new(data: &'a [u8]) -> Self {
        Self { data, pos: 0, depth: 0 }
    }
    fn byte(&mut self) -> u8 {
        let b = self.data.get(self.pos).copied().unwrap_or(0);
        self.pos += 1;
        b
    }
    fn bytes<const N: usize>(&mut self) -> [u8; N] {
        let mut out = [0u8; N];
        for o in out.iter_mut() {
            *o = self.byte();
        }
        out
    }
    fn exhausted(&self) -> bool {
        self.pos >= self.data.len()
    }
    fn len(&mut self) -> usize {
        if self.exhausted() || self.depth > 6 { 0 } else { self.byte() as usize % (SEQ_CAP + 1) }
    }
}

struct Seq<'b, 'a> {
    de: &'b mut ByteDe<'a>,
    left: usize,
}
impl<'de, 'b, 'a> SeqAccess<'de> for Seq<'b, 'a> {
    type Error = Error;
    fn next_element_seed<T: DeserializeSeed<'de>>(&mut self, seed: T) -> Result<Option<T::Value>, Error> {
        if self.left == 0 {
            return Ok(None);
        }
        self.left -= 1;
        self.de.depth += 1;
        let v = seed.deserialize(&mut *self.de);
        self.de.depth -= 1;
        v.map(Some)
    }
    fn size_hint(&self) -> Option<usize> {
        Some(self.left)
    }
}
impl<'de, 'b, 'a> MapAccess<'de> for Seq<'b, 'a> {
    type Error = Error;
    fn next_key_seed<K: DeserializeSeed<'de>>(&mut self, seed: K) -> Result<Option<K::Value>, Error> {
        if self.left == 0 {
            return Ok(None);
        }
        self.left -= 1;
        seed.deserialize(&mut *self.de).map(Some)
    }
    fn next_value_seed<V: DeserializeSeed<'de>>(&mut self, seed: V) -> Result<V::Value, Error> {
        seed.deserialize(&mut *self.de)
    }
}

struct Enum<'b, 'a> {
    de: &'b mut ByteDe<'a>,
    variants: usize,
}
impl<'de, 'b, 'a> EnumAccess<'de> for Enum<'b, 'a> {
    type Error = Error;
    type Variant = Self;
    fn variant_seed<V: DeserializeSeed<'de>>(self, seed: V) -> Result<(V::Value, Self), Error> {
        let idx = (self.de.byte() as usize % self.variants.max(1)) as u32;
        let v = seed.deserialize(IntoDeserializer::<Error>::into_deserializer(idx))?;
        Ok((v, self))
    }
}
impl<'de, 'b, 'a> VariantAccess<'de> for Enum<'b, 'a> {
    type Error = Error;
    fn unit_variant(self) -> Result<(), Error> {
        Ok(())
    }
    fn newtype_variant_seed<T: DeserializeSeed<'de>>(self, seed: T) -> Result<T::Value, Error> {
        seed.deserialize(self.de)
    }
    fn tuple_variant<V: Visitor<'de>>(self, len: usize, visitor: V) -> Result<V::Value, Error> {
        visitor.visit_seq(Seq { de: self.de, left: len })
    }
    fn struct_variant<V: Visitor<'de>>(self, fields: &'static [&'static str], visitor: V) -> Result<V::Value, Error> {
        visitor.visit_seq(Seq { de: self.de, left: fields.len() })
    }
}

macro_rules! num {
    ($f:ident, $v:ident, $t:ty, $n:expr) => {
        fn $f<V: Visitor<'de>>(self, visitor: V) -> Result<V::Value, Error> {
            visitor.$v(<$t>::from_le_bytes(self.bytes::<$n>()))
        }
    };
}

impl<'de, 'b, 'a> de::Deserializer<'de> for &'b mut ByteDe<'a> {
    type Error = Error;

    /// Only self-describing consumers end up here; in the harness that is `rust_decimal::Decimal`
    /// (accepts a string): a non-negative decimal with up to 6 digits and up to 4 decimal places.
    fn deserialize_any<V: Visitor<'de>>(self, visitor: V) -> Result<V::Value, Error> {
        let m = u32::from_le_bytes(self.bytes::<4>()) % 1_000_000;
        let s = self.byte() % 5;
        let text = match s {
            0 => format!("{m}"),
            s => {
                let p = 10u32.pow(s as u32);
                format!("{}.{:0width$}", m / p, m % p, width = s as usize)
            }
        };
        visitor.visit_string(text)
    }
    fn deserialize_bool<V: Visitor<'de>>(self, visitor: V) -> Result<V::Value, Error> {
        visitor.visit_bool(self.byte() & 1 == 1)
    }
    num!(deserialize_i8, visit_i8, i8, 1);
    num!(deserialize_i16, visit_i16, i16, 2);
    num!(deserialize_i32, visit_i32, i32, 4);
    num!(deserialize_i64, visit_i64, i64, 8);
    num!(deserialize_u8, visit_u8, u8, 1);
    num!(deserialize_u16, visit_u16, u16, 2);
    num!(deserialize_u32, visit_u32, u32, 4);
    num!(deserialize_u64, visit_u64, u64, 8);
    fn deserialize_f32<V: Visitor<'de>>(self, visitor: V) -> Result<V::Value, Error> {
        visitor.visit_f32(u16::from_le_bytes(self.bytes::<2>()) as f32 / 8.0)
    }
    fn deserialize_f64<V: Visitor<'de>>(self, visitor: V) -> Result<V::Value, Error> {
        visitor.visit_f64(u32::from_le_bytes(self.bytes::<4>()) as f64 / 64.0)
    }
    fn deserialize_char<V: Visitor<'de>>(self, visitor: V) -> Result<V::Value, Error> {
        visitor.visit_char((b'a' + self.byte() % 26) as char)
    }
    fn deserialize_str<V: Visitor<'de>>(self, visitor: V) -> Result<V::Value, Error> {
        self.deserialize_string(visitor)
    }
    fn deserialize_string<V: Visitor<'de>>(self, visitor: V) -> Result<V::Value, Error> {
        let n = self.byte() % 8;
        let s: String = (0..n).map(|_| (b'a' + self.byte() % 26) as char).collect();
        visitor.visit_string(s)
    }
    fn deserialize_bytes<V: Visitor<'de>>(self, visitor: V) -> Result<V::Value, Error> {
        self.deserialize_byte_buf(visitor)
    }
    fn deserialize_byte_buf<V: Visitor<'de>>(self, visitor: V) -> Result<V::Value, Error> {
        let n = self.byte() % 16;
        let v: Vec<u8> = (0..n).map(|_| self.byte()).collect();
        visitor.visit_byte_buf(v)
    }
    fn deserialize_option<V: Visitor<'de>>(self, visitor: V) -> Result<V::Value, Error> {
        if self.byte() & 1 == 1 { visitor.visit_some(self) } else { visitor.visit_none() }
    }
    fn deserialize_unit<V: Visitor<'de>>(self, visitor: V) -> Result<V::Value, Error> {
        visitor.visit_unit()
    }
    fn deserialize_unit_struct<V: Visitor<'de>>(self, _: &'static str, visitor: V) -> Result<V::Value, Error> {
        visitor.visit_unit()
    }
    fn deserialize_newtype_struct<V: Visitor<'de>>(self, _: &'static str, visitor: V) -> Result<V::Value, Error> {
        visitor.visit_newtype_struct(self)
    }
    fn deserialize_seq<V: Visitor<'de>>(self, visitor: V) -> Result<V::Value, Error> {
        let left = self.len();
        visitor.visit_seq(Seq { de: self, left })
    }
    fn deserialize_tuple<V: Visitor<'de>>(self, len: usize, visitor: V) -> Result<V::Value, Error> {
        visitor.visit_seq(Seq { de: self, left: len })
    }
    fn deserialize_tuple_struct<V: Visitor<'de>>(self, _: &'static str, len: usize, visitor: V) -> Result<V::Value, Error> {
        visitor.visit_seq(Seq { de: self, left: len })
    }
    fn deserialize_map<V: Visitor<'de>>(self, visitor: V) -> Result<V::Value, Error> {
        let left = self.len().min(8);
        visitor.visit_map(Seq { de: self, left })
    }
    fn deserialize_struct<V: Visitor<'de>>(self, _: &'static str, fields: &'static [&'static str], visitor: V) -> Result<V::Value, Error> {
        visitor.visit_seq(Seq { de: self, left: fields.len() })
    }
    fn deserialize_enum<V: Visitor<'de>>(self, _: &'static str, variants: &'static [&'static str], visitor: V) -> Result<V::Value, Error> {
        visitor.visit_enum(Enum { de: self, variants: variants.len() })
    }
    fn deserialize_identifier<V: Visitor<'de>>(self, visitor: V) -> Result<V::Value, Error> {
        visitor.visit_u32(self.byte() as u32)
    }
    fn deserialize_ignored_any<V: Visitor<'de>>(self, visitor: V) -> Result<V::Value, Error> {
        visitor.visit_unit()
    }
}

pub fn decode<T: de::DeserializeOwned>(data: &[u8]) -> Option<T> {
    let mut de = ByteDe::new(data);
    T::deserialize(&mut de).ok()
}
