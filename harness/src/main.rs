use serde_json::Value;
use verif::framework::{Ctx, Tier, quiet_panics, start_watchdog};
use verif::props;

fn usage() -> ! {
    eprintln!("usage: verif <ID> quick|thorough|replay [replay-file]");
    std::process::exit(2)
}

fn main() {
    let args: Vec<String> = std::env::args().collect();
    if args.len() < 3 {
        usage();
    }
    let id = args[1].to_uppercase();
    let Some(prop) = props::ALL.iter().find(|p| p.id == id) else {
        eprintln!("INCONCLUSIVE: unknown property id {id}");
        std::process::exit(2)
    };
    let seed: u64 = std::env::var("VERIF_SEED")
        .ok()
        .and_then(|s| s.trim().parse::<i128>().ok())
        .map(|v| v as u64)
        .unwrap_or(0);
    quiet_panics();
    match args[2].as_str() {
        "quick" | "thorough" => {
            let tier = if args[2] == "quick" { Tier::Quick } else { Tier::Thorough };
            start_watchdog(if tier == Tier::Quick { 1500 } else { 5400 }, prop.id);
            let mut ctx = Ctx::new(prop.id, tier, seed);
            (prop.run)(&mut ctx);
            std::process::exit(ctx.finish());
        }
        "replay" => {
            let Some(path) = args.get(3) else { usage() };
            let text = std::fs::read_to_string(path).unwrap_or_else(|e| {
                eprintln!("INCONCLUSIVE: cannot read {path}: {e}");
                std::process::exit(2)
            });
            let doc: Value = serde_json::from_str(&text).unwrap_or_else(|e| {
                eprintln!("INCONCLUSIVE: cannot parse {path}: {e}");
                std::process::exit(2)
            });
            start_watchdog(600, prop.id);
            let tier = match std::env::var("VERIF_TIER").as_deref() {
                Ok("thorough") => Tier::Thorough,
                _ => Tier::Quick,
            };
            let mut ctx = Ctx::new(prop.id, tier, seed);
            ctx.replay_mode = true;
            if !(prop.replay)(&mut ctx, &doc) {
                eprintln!("INCONCLUSIVE: replay file names check {:?} which {} does not have", doc.get("check"), prop.id);
                std::process::exit(2);
            }
            std::process::exit(ctx.finish());
        }
        _ => usage(),
    }
}
