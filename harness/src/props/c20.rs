//! C20 — Backtests consume their whole dataset in order and do not affect one another.
//!
//! Check `in_memory_data`: `MarketDataInMemory::{new, stream, time_first_event}` yields exactly the
//! events in index order on every call.
//! Check `backtests_paused` (schedule owned by the harness): `run_backtests` with 1-24 strategies
//! parameterised by (market-event ordinal -> order) tables over a dataset whose events are spaced
//! in virtual time, mock execution with latency, on tokio's paused current-thread runtime; each
//! backtest is also run alone. Observation without hooks: a recording `GlobalData` (market events
//! and fills seen by the engine) is read by each backtest's own strategy instance.
//! Check `backtests_threads` (schedules sampled): the same on multi-thread runtimes with 1/2/4/8
//! workers; the dataset's last event is gated on all expected fills having been seen.

use crate::framework::{CaseReport, Check, Ctx, Tier};
use crate::props::gens::{ts, T0_MS};
use crate::props::world::{self, InstrumentDef, KindDef, UnitDef};
use barter::{
    backtest::{
        BacktestArgsConstant, BacktestArgsDynamic, backtest,
        market_data::{BacktestMarketData, MarketDataInMemory},
        run_backtests,
        summary::BacktestSummary,
    },
    engine::{
        Engine, Processor,
        state::{
            EngineState,
            instrument::{data::DefaultInstrumentMarketData, filter::InstrumentFilter},
            trading::TradingState,
        },
    },
    error::BarterError,
    risk::DefaultRiskManager,
    statistic::time::Daily,
    strategy::{
        algo::AlgoStrategy,
        close_positions::{ClosePositionsStrategy, close_open_positions_with_market_orders},
        on_disconnect::OnDisconnectStrategy,
        on_trading_disabled::OnTradingDisabled,
    },
    system::config::ExecutionConfig,
};
use barter_data::{
    event::{DataKind, MarketEvent},
    streams::consumer::MarketStreamEvent,
    subscription::trade::PublicTrade,
};
use barter_execution::{
    AccountEvent, AccountEventKind, UnindexedAccountSnapshot,
    balance::{AssetBalance, Balance},
    client::mock::MockExecutionConfig,
    order::{
        OrderKey, OrderKind, TimeInForce,
        id::{ClientOrderId, StrategyId},
        request::{OrderRequestCancel, OrderRequestOpen, RequestOpen},
    },
};
use barter_instrument::{
    Side,
    asset::{AssetIndex, ExchangeAsset},
    exchange::{ExchangeId, ExchangeIndex},
    index::IndexedInstruments,
    instrument::InstrumentIndex,
};
use chrono::{DateTime, Utc};
use futures::{Stream, StreamExt};
use proptest::prelude::*;
use rust_decimal::{Decimal, prelude::FromPrimitive};
use serde::{Deserialize, Serialize};
use serde_json::Value;
use smol_str::SmolStr;
use std::{
    collections::HashSet,
    sync::{
        Arc, Mutex,
        atomic::{AtomicBool, AtomicUsize, Ordering},
    },
    time::Duration,
};

// ---------------------------------------------------------------------------------------------
// Recording global data + table strategy
// ---------------------------------------------------------------------------------------------

#[derive(Debug, Clone, Default, PartialEq)]
pub struct Recorder {
    /// market items seen by the engine: (instrument, exchange time ms)
    pub market: Vec<(usize, i64)>,
    /// fills seen by the engine: (instrument, buy, price, quantity)
    pub fills: Vec<(usize, bool, Decimal, Decimal)>,
    /// (trade id, order id) of those fills, in the same order
    pub fill_ids: Vec<(String, String)>,
}

impl Processor<&MarketEvent<InstrumentIndex, DataKind>> for Recorder {
    type Audit = ();
    fn process(&mut self, e: &MarketEvent<InstrumentIndex, DataKind>) {
        self.market.push((e.instrument.index(), e.time_exchange.timestamp_millis()));
    }
}
impl Processor<&AccountEvent> for Recorder {
    type Audit = ();
    fn process(&mut self, e: &AccountEvent) {
        if let AccountEventKind::Trade(t) = &e.kind {
            self.fills.push((t.instrument.index(), t.side == Side::Buy, t.price, t.quantity));
            self.fill_ids.push((t.id.0.to_string(), t.order_id.0.to_string()));
        }
    }
}

type BtState = EngineState<Recorder, DefaultInstrumentMarketData>;

#[derive(Debug, Clone, PartialEq)]
pub struct Final {
    pub recorder: Recorder,
    /// per instrument: open position (buy?, quantity, entry)
    pub positions: Vec<Option<(bool, Decimal, Decimal)>>,
    /// per asset: total balance
    pub balances: Vec<Option<Decimal>>,
    /// per instrument: realised PnL of closed positions
    pub pnl: Vec<Decimal>,
    /// per instrument: ids of the fills recorded against the open position
    pub position_trades: Vec<Vec<String>>,
}

#[derive(Debug, Default)]
pub struct BtLog {
    pub calls: u64,
    pub fired: HashSet<usize>,
    pub last: Option<Final>,
    pub disconnects: u32,
    pub fills_reported: usize,
    pub ready_reported: bool,
}

#[derive(Debug, Clone, Copy, PartialEq, Eq, Serialize, Deserialize)]
pub struct Entry {
    /// fire when the engine has seen this many market items
    pub ordinal: u16,
    pub inst: u8,
    pub buy: bool,
    pub qty: u8,
}

#[derive(Debug, Clone)]
pub struct TableStrategy {
    pub id: SmolStr,
    pub table: Arc<Vec<Entry>>,
    pub log: Arc<Mutex<BtLog>>,
    /// fills seen over all backtests of a batch (gates the dataset's last event in the threaded check)
    pub fills_total: Arc<AtomicUsize>,
}

impl AlgoStrategy for TableStrategy {
    type State = BtState;
    fn generate_algo_orders(&self, state: &BtState) -> (impl IntoIterator<Item = OrderRequestCancel>, impl IntoIterator<Item = OrderRequestOpen>) {
        let mut log = self.log.lock().unwrap();
        log.calls += 1;
        let seen = state.global.fills.len();
        if seen > log.fills_reported {
            self.fills_total.fetch_add(seen - log.fills_reported, Ordering::SeqCst);
            log.fills_reported = seen;
        }
        // the initial account snapshot(s) have been processed (every asset has a balance): counted once
        // per backtest into the same gate counter, so that the threaded check's last dataset item is
        // also held until every engine knows its starting balances
        if !log.ready_reported && state.assets.0.values().all(|a| a.balance.is_some()) {
            log.ready_reported = true;
            self.fills_total.fetch_add(1, Ordering::SeqCst);
        }
        log.last = Some(Final {
            recorder: state.global.clone(),
            positions: state.instruments.0.values().map(|s| s.position.current.as_ref().map(|p| (p.side == Side::Buy, p.quantity_abs, p.price_entry_average))).collect(),
            balances: state.assets.0.values().map(|a| a.balance.as_ref().map(|b| b.value.total)).collect(),
            pnl: state.instruments.0.values().map(|s| s.tear_sheet.pnl_returns.pnl_raw).collect(),
            position_trades: state.instruments.0.values().map(|s| s.position.current.as_ref().map(|p| p.trades.iter().map(|t| t.0.to_string()).collect()).unwrap_or_default()).collect(),
        });
        let ordinal = state.global.market.len();
        let mut opens = Vec::new();
        // decisions depend on market data only: (number of market items seen) -> orders, fired once
        if log.fired.insert(ordinal) {
            for (k, e) in self.table.iter().enumerate().filter(|(_, e)| e.ordinal as usize == ordinal) {
                let n = state.instruments.0.len();
                let st = state.instruments.instrument_index(&InstrumentIndex(e.inst as usize % n));
                let Some(price) = st.data.last_traded_price.as_ref().map(|p| p.value) else { continue };
                opens.push(OrderRequestOpen {
                    key: OrderKey { exchange: st.instrument.exchange, instrument: st.key, strategy: StrategyId::new(self.id.as_str()), cid: ClientOrderId::new(format!("{}-{k}", self.id)) },
                    state: RequestOpen { side: if e.buy { Side::Buy } else { Side::Sell }, price, quantity: Decimal::new(e.qty.max(1) as i64, 1), kind: OrderKind::Market, time_in_force: TimeInForce::ImmediateOrCancel },
                });
            }
        }
        (std::iter::empty(), opens)
    }
}

impl ClosePositionsStrategy for TableStrategy {
    type State = BtState;
    fn close_positions_requests<'a>(
        &'a self,
        state: &'a BtState,
        filter: &'a InstrumentFilter,
    ) -> (impl IntoIterator<Item = OrderRequestCancel<ExchangeIndex, InstrumentIndex>> + 'a, impl IntoIterator<Item = OrderRequestOpen<ExchangeIndex, InstrumentIndex>> + 'a)
    where
        ExchangeIndex: 'a,
        AssetIndex: 'a,
        InstrumentIndex: 'a,
    {
        // not used by the backtests; delegates to the repo's helper
        static ID: std::sync::OnceLock<StrategyId> = std::sync::OnceLock::new();
        close_open_positions_with_market_orders(ID.get_or_init(|| StrategyId::new("table")), state, filter, |_| ClientOrderId::random())
    }
}

impl<Clock, State, Txs, Risk> OnDisconnectStrategy<Clock, State, Txs, Risk> for TableStrategy {
    type OnDisconnect = ();
    fn on_disconnect(engine: &mut Engine<Clock, State, Txs, Self, Risk>, _: ExchangeId) {
        engine.strategy.log.lock().unwrap().disconnects += 1;
    }
}
impl<Clock, State, Txs, Risk> OnTradingDisabled<Clock, State, Txs, Risk> for TableStrategy {
    type OnTradingDisabled = ();
    fn on_trading_disabled(_: &mut Engine<Clock, State, Txs, Self, Risk>) {}
}

// ---------------------------------------------------------------------------------------------
// Market data served by the harness
// ---------------------------------------------------------------------------------------------

#[derive(Debug, Clone)]
pub struct Gate {
    pub fills_total: Arc<AtomicUsize>,
    pub expected: usize,
    pub timed_out: Arc<AtomicBool>,
}

#[derive(Debug, Clone)]
pub struct HarnessMarketData {
    pub events: Arc<Vec<MarketStreamEvent<InstrumentIndex, DataKind>>>,
    /// virtual gap before every event (paused-clock flavour)
    pub gap_ms: u64,
    /// threaded flavour: hold the last event until all expected fills have been seen
    pub gate: Option<Gate>,
}

impl BacktestMarketData for HarnessMarketData {
    type Kind = DataKind;

    async fn time_first_event(&self) -> Result<DateTime<Utc>, BarterError> {
        Ok(ts(T0_MS))
    }

    async fn stream(&self) -> Result<impl Stream<Item = MarketStreamEvent<InstrumentIndex, DataKind>> + Send + 'static, BarterError> {
        let events = Arc::clone(&self.events);
        let gap = self.gap_ms;
        let gate = self.gate.clone();
        let n = events.len();
        Ok(futures::stream::iter(0..n).then(move |i| {
            let events = Arc::clone(&events);
            let gate = gate.clone();
            async move {
                if gap > 0 {
                    tokio::time::sleep(Duration::from_millis(gap)).await;
                }
                if let (Some(g), true) = (&gate, i + 1 == n) {
                    let started = std::time::Instant::now();
                    while g.fills_total.load(Ordering::SeqCst) < g.expected {
                        if started.elapsed() > Duration::from_secs(20) {
                            g.timed_out.store(true, Ordering::SeqCst);
                            break;
                        }
                        tokio::time::sleep(Duration::from_millis(1)).await;
                    }
                }
                events[i].clone()
            }
        }))
    }
}

// ---------------------------------------------------------------------------------------------
// Case
// ---------------------------------------------------------------------------------------------

#[derive(Debug, Clone, Copy, PartialEq, Eq, Serialize, Deserialize)]
pub struct EvGen {
    pub inst: u8,
    pub price_q: u16,
    /// a reconnect notice instead of a trade
    pub reconnecting: bool,
    /// in-memory flavours only: the item's exchange time lags this many seconds behind its place in
    /// the dataset (merged feeds, a venue whose clock runs behind): timestamps not monotonic
    #[serde(default)]
    pub lag_s: u16,
}

#[derive(Debug, Clone, Serialize, Deserialize)]
pub struct BtCase {
    pub two_exchanges: bool,
    pub n_instruments: u8,
    pub events: Vec<EvGen>,
    pub tables: Vec<Vec<Entry>>,
    pub latency_ms: u8,
    pub fee_sel: u8,
    /// worker threads of the multi-thread flavour (selector into {1,2,4,8})
    pub threads_sel: u8,
    /// backtests_in_memory only, > 0 with a dataset of at most 60 items: a parameter sweep — the
    /// tables are cycled to 32 + crowd concurrent backtests
    #[serde(default)]
    pub crowd: u8,
}

const FEES: [(i64, u32); 3] = [(0, 0), (1, 3), (1, 2)];
const START_BALANCE: i64 = 1_000_000_000;

struct Setup {
    indexed: IndexedInstruments,
    dataset: Vec<MarketStreamEvent<InstrumentIndex, DataKind>>,
    /// (instrument, time) of the trade items in dataset order
    trades: Vec<(usize, i64)>,
    /// price of the last trade per instrument after `k` market items, k = 0..=n
    last_price: Vec<Vec<Option<Decimal>>>,
    reconnects: u32,
    executions: Vec<ExecutionConfig>,
    fee: Decimal,
    state: BtState,
}

fn setup(case: &BtCase) -> Setup {
    setup_with(case, false)
}

fn setup_with(case: &BtCase, allow_lag: bool) -> Setup {
    let n_inst = case.n_instruments.clamp(1, 3) as usize;
    let defs: Vec<InstrumentDef> = (0..n_inst)
        .map(|i| InstrumentDef { exchange: if case.two_exchanges && i == n_inst - 1 && n_inst > 1 { 2 } else { 1 }, base: i as u8, quote: 3, kind: KindDef::Spot, unit: UnitDef::NoSpec })
        .collect();
    let indexed = world::index(&defs);
    let n = indexed.instruments().len();
    let mut dataset = Vec::new();
    let mut trades = Vec::new();
    let mut last: Vec<Option<Decimal>> = vec![None; n];
    let mut last_price = vec![last.clone()];
    let mut reconnects = 0;
    for (k, e) in case.events.iter().enumerate() {
        let inst = e.inst as usize % n;
        let ex_id = indexed.instruments()[inst].value.exchange.value;
        if e.reconnecting && k > 0 {
            reconnects += 1;
            dataset.push(MarketStreamEvent::Reconnecting(ex_id));
            continue;
        }
        // unique, increasing exchange times (unless the in-memory flavour asks for a lagging item)
        let t = T0_MS + 1_000 * (k as i64 + 1) - if allow_lag { (1_000 * e.lag_s as i64).min(1_000 * k as i64) } else { 0 };
        let price = e.price_q.max(1) as f64 / 4.0;
        dataset.push(MarketStreamEvent::Item(MarketEvent { time_exchange: ts(t), time_received: ts(t), exchange: ex_id, instrument: InstrumentIndex(inst), kind: DataKind::Trade(PublicTrade { id: format!("{k}"), price, amount: 1.0, side: Side::Buy }) }));
        trades.push((inst, t));
        last[inst] = Decimal::from_f64(price);
        last_price.push(last.clone());
    }
    let (m, s) = FEES[case.fee_sel as usize % FEES.len()];
    let fee = Decimal::new(m, s);
    let executions: Vec<ExecutionConfig> = indexed
        .exchanges()
        .iter()
        .map(|ex| {
            ExecutionConfig::Mock(MockExecutionConfig {
                mocked_exchange: ex.value,
                initial_state: UnindexedAccountSnapshot {
                    exchange: ex.value,
                    balances: indexed.assets().iter().filter(|a| a.value.exchange == ex.value).map(|a| AssetBalance { asset: a.value.asset.name_exchange.clone(), balance: Balance::new(Decimal::from(START_BALANCE), Decimal::from(START_BALANCE)), time_exchange: ts(T0_MS) }).collect(),
                    instruments: vec![],
                },
                latency_ms: case.latency_ms as u64,
                fees_percent: fee,
            })
        })
        .collect();
    let state = EngineState::builder(&indexed, Recorder::default(), DefaultInstrumentMarketData::default).time_engine_start(ts(T0_MS)).trading_state(TradingState::Enabled).build();
    Setup { indexed, dataset, trades, last_price, reconnects, executions, fee, state }
}

/// Table entries that can fire: ordinal in [1, n_trades - 2] (never at the tail: the backtest stops
/// right after the last market event, responses to orders placed there may be cut off).
fn normalise(table: &[Entry], n_trades: usize, n_inst: usize) -> Vec<Entry> {
    if n_trades < 3 {
        return vec![];
    }
    table.iter().map(|e| Entry { ordinal: 1 + (e.ordinal as usize % (n_trades - 2)) as u16, inst: (e.inst as usize % n_inst) as u8, buy: e.buy, qty: e.qty.max(1) }).collect()
}

/// What one backtest must end with, computed from its own table and the dataset alone.
struct Expected {
    fills: Vec<(usize, bool, Decimal, Decimal)>,
    balances: Vec<Decimal>,
}

fn expected_of(s: &Setup, table: &[Entry]) -> Expected {
    let mut fills = Vec::new();
    let mut balances: Vec<Decimal> = vec![Decimal::from(START_BALANCE); s.indexed.assets().len()];
    let mut order: Vec<&Entry> = table.iter().collect();
    order.sort_by_key(|e| e.ordinal); // stable: table order inside one ordinal
    for e in order {
        let inst = e.inst as usize;
        let Some(price) = s.last_price[e.ordinal as usize][inst] else { continue };
        let qty = Decimal::new(e.qty as i64, 1);
        let ins = &s.indexed.instruments()[inst].value;
        if e.buy {
            balances[ins.underlying.quote.index()] -= price * qty * (Decimal::ONE + s.fee);
        } else {
            balances[ins.underlying.base.index()] -= qty * (Decimal::ONE + s.fee);
        }
        fills.push((inst, e.buy, price, qty));
    }
    Expected { fills, balances }
}

fn dynamic_args(id: usize, table: Vec<Entry>, fills_total: &Arc<AtomicUsize>) -> (BacktestArgsDynamic<TableStrategy, DefaultRiskManager<BtState>>, Arc<Mutex<BtLog>>) {
    let log = Arc::new(Mutex::new(BtLog::default()));
    let id = SmolStr::new(format!("bt{id}"));
    (
        BacktestArgsDynamic { id: id.clone(), risk_free_return: Decimal::new(5, 2), strategy: TableStrategy { id, table: Arc::new(table), log: log.clone(), fills_total: fills_total.clone() }, risk: DefaultRiskManager::default() },
        log,
    )
}

/// Compare one finished backtest (log + summary) with its expectation.
fn judge(tag: &str, s: &Setup, k: usize, table: &[Entry], log: &BtLog, summary: &BacktestSummary<Daily>) -> Result<(), (String, String)> {
    let exp = expected_of(s, table);
    if summary.id.as_str() != format!("bt{k}") {
        return Err((format!("{tag}:summary-id"), format!("summary {k} carries id {}", summary.id)));
    }
    judge_consumption(tag, s, k, log)?;
    let fin = log.last.as_ref().expect("checked by judge_consumption");
    let mut got_fills = fin.recorder.fills.clone();
    let mut want_fills = exp.fills.clone();
    got_fills.sort();
    want_fills.sort();
    if got_fills != want_fills {
        return Err((format!("{tag}:fills"), format!("backtest {k}: fills {got_fills:?}, its own table implies {want_fills:?}")));
    }
    judge_rest(tag, s, k, &exp, fin, summary)
}

/// Every item of the dataset reached the engine exactly once and in order.
fn judge_consumption(tag: &str, s: &Setup, k: usize, log: &BtLog) -> Result<(), (String, String)> {
    let Some(fin) = &log.last else {
        return Err((format!("{tag}:engine-saw-nothing"), format!("backtest {k}: the strategy was never asked for orders")));
    };
    if fin.recorder.market != s.trades {
        let (got, want) = (fin.recorder.market.len(), s.trades.len());
        return Err((format!("{tag}:dataset-consumption"), format!("backtest {k}: the engine saw {got} market items, the dataset has {want}; first difference at {:?}; seen {:?} expected {:?}", fin.recorder.market.iter().zip(&s.trades).position(|(a, b)| a != b), &fin.recorder.market[..got.min(12)], &s.trades[..want.min(12)])));
    }
    if log.disconnects != s.reconnects {
        return Err((format!("{tag}:reconnect-notices"), format!("backtest {k}: {} reconnect notices seen, dataset has {}", log.disconnects, s.reconnects)));
    }
    Ok(())
}

fn judge_rest(tag: &str, s: &Setup, k: usize, exp: &Expected, fin: &Final, summary: &BacktestSummary<Daily>) -> Result<(), (String, String)> {
    // summary computed from that engine alone
    for (i, a) in s.indexed.assets().iter().enumerate() {
        let key = ExchangeAsset { exchange: a.value.exchange, asset: a.value.asset.name_internal.clone() };
        let end = summary.trading_summary.assets.get(&key).and_then(|t| t.balance_end).map(|b| b.total);
        if end != Some(exp.balances[i]) {
            return Err((format!("{tag}:summary-balance"), format!("backtest {k}: summary balance of {:?} is {end:?}, its own fills imply {}", key, exp.balances[i])));
        }
        if fin.balances[i] != Some(exp.balances[i]) {
            return Err((format!("{tag}:final-balance"), format!("backtest {k}: final engine balance of {:?} is {:?}, its own fills imply {}", key, fin.balances[i], exp.balances[i])));
        }
    }
    for (i, ins) in s.indexed.instruments().iter().enumerate() {
        let sheet = summary.trading_summary.instruments.get(&ins.value.name_internal);
        if sheet.map(|t| t.pnl) != Some(fin.pnl[i]) {
            return Err((format!("{tag}:summary-pnl"), format!("backtest {k}: summary PnL of instrument {i} is {:?}, its engine ended with {}", sheet.map(|t| t.pnl), fin.pnl[i])));
        }
        // net position implied by own fills
        let net: Decimal = exp.fills.iter().filter(|f| f.0 == i).map(|f| if f.1 { f.3 } else { -f.3 }).sum();
        let got = fin.positions[i].map(|(buy, q, _)| if buy { q } else { -q }).unwrap_or(Decimal::ZERO);
        if got != net {
            return Err((format!("{tag}:final-position"), format!("backtest {k}: final position of instrument {i} is {got}, its own fills net to {net}")));
        }
    }
    Ok(())
}

fn case_strategy(max_events: usize, max_bt: usize) -> BoxedStrategy<BtCase> {
    case_strategy_lag(max_events, max_bt, false)
}

fn case_strategy_lag(max_events: usize, max_bt: usize, lag: bool) -> BoxedStrategy<BtCase> {
    let lag_s = if lag { prop_oneof![8 => Just(0u16), 1 => 1u16..5, 1 => 5u16..900].boxed() } else { Just(0u16).boxed() };
    (
        any::<bool>(),
        1u8..=3,
        prop::collection::vec((0u8..3, 1u16..2000, prop::bool::weighted(0.05), lag_s), 1..max_events),
        prop::collection::vec(prop::collection::vec((any::<u16>(), 0u8..3, any::<bool>(), 1u8..30), 1..6), 1..=max_bt),
        0u8..50,
        0u8..3,
        0u8..4,
    )
        .prop_map(|(two_exchanges, n_instruments, ev, tables, latency_ms, fee_sel, threads_sel)| BtCase {
            two_exchanges,
            n_instruments,
            events: ev.into_iter().map(|(inst, price_q, reconnecting, lag_s)| EvGen { inst, price_q, reconnecting, lag_s }).collect(),
            tables: tables.into_iter().map(|t| t.into_iter().map(|(ordinal, inst, buy, qty)| Entry { ordinal, inst, buy, qty }).collect()).collect(),
            latency_ms,
            fee_sel,
            threads_sel,
            crowd: 0,
        })
        .boxed()
}

fn classify(rep: &mut CaseReport, s: &Setup, tables: &[Vec<Entry>]) {
    let distinct: HashSet<Vec<(u16, u8, bool, u8)>> = tables.iter().map(|t| t.iter().map(|e| (e.ordinal, e.inst, e.buy, e.qty)).collect()).collect();
    let with_fill = tables.iter().filter(|t| !expected_of(s, t).fills.is_empty()).count();
    rep.class_if(tables.len() >= 4, "four_or_more_concurrent");
    rep.class_if(distinct.len() >= 2, "different_parameterisations");
    rep.class_if(with_fill == tables.len() && !tables.is_empty(), "every_backtest_fills");
    rep.class_if(s.trades.len() >= 20, "dataset_20_plus");
    rep.class_if(s.reconnects > 0, "reconnect_notice_in_dataset");
    rep.nontrivial = tables.len() >= 4 && distinct.len() >= 4.min(tables.len()) && with_fill == tables.len() && s.trades.len() >= 20;
}

// ---------------------------------------------------------------------------------------------
// Checks
// ---------------------------------------------------------------------------------------------

pub struct BacktestsPaused;

impl Check for BacktestsPaused {
    type Case = BtCase;
    const NAME: &'static str = "backtests_paused";

    fn strategy(tier: Tier) -> BoxedStrategy<BtCase> {
        if tier == Tier::Quick { case_strategy(80, 12) } else { case_strategy(300, 24) }
    }

    fn eval(case: &BtCase) -> CaseReport {
        let mut rep = CaseReport::new();
        macro_rules! bad {
            ($sig:expr, $($fmt:tt)+) => {{ rep.fail($sig, format!($($fmt)+)); return rep; }};
        }
        let s = setup(case);
        if s.trades.is_empty() {
            return rep;
        }
        let n_inst = s.indexed.instruments().len();
        let tables: Vec<Vec<Entry>> = case.tables.iter().map(|t| normalise(t, s.trades.len(), n_inst)).collect();
        let gap_ms = 2 * case.latency_ms as u64 + 5;
        let constant = Arc::new(BacktestArgsConstant {
            instruments: s.indexed.clone(),
            executions: s.executions.clone(),
            market_data: HarnessMarketData { events: Arc::new(s.dataset.clone()), gap_ms, gate: None },
            summary_interval: Daily,
            engine_state: s.state.clone(),
        });
        let fills_total = Arc::new(AtomicUsize::new(0));
        let rt = || tokio::runtime::Builder::new_current_thread().enable_time().start_paused(true).build().expect("runtime");

        // ---- all together ---------------------------------------------------------------------------
        let (args, logs): (Vec<_>, Vec<_>) = tables.iter().enumerate().map(|(k, t)| dynamic_args(k, t.clone(), &fills_total)).unzip();
        let multi = match rt().block_on(run_backtests(Arc::clone(&constant), args)) {
            Ok(m) => m,
            Err(e) => bad!("run-backtests-failed", "run_backtests failed: {e}"),
        };
        if multi.num_backtests != tables.len() || multi.summaries.len() != tables.len() {
            bad!("summary-count", "{} summaries for {} backtests", multi.summaries.len(), tables.len());
        }
        for (k, t) in tables.iter().enumerate() {
            let log = logs[k].lock().unwrap();
            if let Err((sig, msg)) = judge("concurrent", &s, k, t, &log, &multi.summaries[k]) {
                bad!(sig, "{msg}");
            }
        }
        // ---- each alone: same fills, positions, balances, PnL -----------------------------------------
        for (k, t) in tables.iter().enumerate().take(6) {
            let (args, log) = dynamic_args(k, t.clone(), &fills_total);
            let summary = match rt().block_on(backtest(Arc::clone(&constant), args)) {
                Ok(m) => m,
                Err(e) => bad!("backtest-failed", "backtest {k} alone failed: {e}"),
            };
            let alone = log.lock().unwrap();
            if let Err((sig, msg)) = judge("alone", &s, k, t, &alone, &summary) {
                bad!(sig, "{msg}");
            }
            let together = logs[k].lock().unwrap();
            let (a, b) = (alone.last.as_ref().unwrap(), together.last.as_ref().unwrap());
            if a.recorder.fills != b.recorder.fills || a.recorder.fill_ids != b.recorder.fill_ids || a.positions != b.positions || a.position_trades != b.position_trades || a.balances != b.balances || a.pnl != b.pnl {
                bad!("concurrent-differs-from-alone", "backtest {k}: alone {a:?} vs among {} concurrent backtests {b:?}", tables.len());
            }
            // time-scaled ratios depend on the historical clock (wall-clock mixed in): compare the
            // time-free figures
            let core = |b: &BacktestSummary<Daily>| b.trading_summary.instruments.iter().map(|(n, t)| (n.clone(), t.pnl, t.win_rate.clone(), t.profit_factor.clone())).collect::<Vec<_>>();
            if core(&summary) != core(&multi.summaries[k]) {
                bad!("concurrent-summary-differs-from-alone", "backtest {k}: PnL / win rate / profit factor differ between the solo run {:?} and the concurrent run {:?}", core(&summary), core(&multi.summaries[k]));
            }
        }
        classify(&mut rep, &s, &tables);
        rep
    }
}

pub struct BacktestsThreads;

impl Check for BacktestsThreads {
    type Case = BtCase;
    const NAME: &'static str = "backtests_threads";
    const OWNS_SCHEDULE: bool = false;

    fn strategy(tier: Tier) -> BoxedStrategy<BtCase> {
        if tier == Tier::Quick { case_strategy(60, 12) } else { case_strategy(200, 24) }
    }

    fn eval(case: &BtCase) -> CaseReport {
        let mut rep = CaseReport::new();
        let s = setup(case);
        if s.trades.len() < 3 {
            return rep;
        }
        let n_inst = s.indexed.instruments().len();
        let tables: Vec<Vec<Entry>> = case.tables.iter().map(|t| normalise(t, s.trades.len(), n_inst)).collect();
        let expected_fills: usize = tables.iter().map(|t| expected_of(&s, t).fills.len()).sum();
        let fills_total = Arc::new(AtomicUsize::new(0));
        let timed_out = Arc::new(AtomicBool::new(false));
        let constant = Arc::new(BacktestArgsConstant {
            instruments: s.indexed.clone(),
            executions: s.executions.iter().map(|e| match e { ExecutionConfig::Mock(m) => ExecutionConfig::Mock(MockExecutionConfig { latency_ms: (m.latency_ms % 3), ..m.clone() }) }).collect(),
            market_data: HarnessMarketData { events: Arc::new(s.dataset.clone()), gap_ms: 0, gate: Some(Gate { fills_total: fills_total.clone(), expected: expected_fills + tables.len(), timed_out: timed_out.clone() }) },
            summary_interval: Daily,
            engine_state: s.state.clone(),
        });
        let workers = [1usize, 2, 4, 8][case.threads_sel as usize % 4];
        let rt = tokio::runtime::Builder::new_multi_thread().worker_threads(workers).enable_time().build().expect("runtime");
        let (args, logs): (Vec<_>, Vec<_>) = tables.iter().enumerate().map(|(k, t)| dynamic_args(k, t.clone(), &fills_total)).unzip();
        let multi = rt.block_on(async { tokio::time::timeout(Duration::from_secs(60), run_backtests(Arc::clone(&constant), args)).await });
        rt.shutdown_background();
        let multi = match multi {
            Err(_) => {
                // a hang is inconclusive, never a violation
                println!("INCONCLUSIVE property=C20 backtests_threads: run_backtests did not finish within 60 s");
                std::process::exit(2);
            }
            Ok(Err(e)) => {
                rep.fail("run-backtests-failed", format!("run_backtests failed: {e}"));
                return rep;
            }
            Ok(Ok(m)) => m,
        };
        if timed_out.load(Ordering::SeqCst) {
            // fills did not all arrive within the watchdog: the comparison of fills would be racy
            rep.class("gate_watchdog_expired_skipped");
            return rep;
        }
        if multi.summaries.len() != tables.len() {
            rep.fail("summary-count", format!("{} summaries for {} backtests", multi.summaries.len(), tables.len()));
            return rep;
        }
        for (k, t) in tables.iter().enumerate() {
            let log = logs[k].lock().unwrap();
            if let Err((sig, msg)) = judge("threads", &s, k, t, &log, &multi.summaries[k]) {
                rep.fail(sig, format!("{workers} worker threads: {msg}"));
                return rep;
            }
        }
        classify(&mut rep, &s, &tables);
        rep.class(["workers_1", "workers_2", "workers_4", "workers_8"][case.threads_sel as usize % 4]);
        rep
    }
}


/// The same batch of backtests over the crate's own `MarketDataInMemory` (no gap between events, so
/// the whole dataset is queued in front of the engine at once). Orders placed against a feed that
/// runs ahead of the execution responses may resolve after the backtest ends, so only the
/// timing-free half of the property is judged here: every backtest's engine saw every market item
/// and reconnect notice of the dataset exactly once, in order.
pub struct BacktestsInMemory;

impl Check for BacktestsInMemory {
    type Case = BtCase;
    const NAME: &'static str = "backtests_in_memory";

    fn strategy(tier: Tier) -> BoxedStrategy<BtCase> {
        let big = if tier == Tier::Quick { 700 } else { 2500 };
        prop_oneof![
            8 => case_strategy_lag(40, 8, true),
            1 => (case_strategy_lag(40, 8, true), 1u8..=64).prop_map(|(mut c, crowd)| { c.crowd = crowd; c }),
            8 => case_strategy_lag(big, 5, true),
        ].boxed()
    }

    fn eval(case: &BtCase) -> CaseReport {
        let mut rep = CaseReport::new();
        macro_rules! bad {
            ($sig:expr, $($fmt:tt)+) => {{ rep.fail($sig, format!($($fmt)+)); return rep; }};
        }
        let s = setup_with(case, true);
        if s.trades.is_empty() || !matches!(s.dataset[0], MarketStreamEvent::Item(_)) {
            return rep;
        }
        let n_inst = s.indexed.instruments().len();
        let mut tables: Vec<Vec<Entry>> = case.tables.iter().map(|t| normalise(t, s.trades.len(), n_inst)).collect();
        if case.crowd > 0 && s.dataset.len() <= 60 && !tables.is_empty() {
            let base = tables.clone();
            tables = (0..32 + case.crowd as usize).map(|k| base[k % base.len()].clone()).collect();
        }
        let constant = Arc::new(BacktestArgsConstant {
            instruments: s.indexed.clone(),
            executions: s.executions.clone(),
            market_data: MarketDataInMemory::new(Arc::new(s.dataset.clone())),
            summary_interval: Daily,
            engine_state: s.state.clone(),
        });
        let fills_total = Arc::new(AtomicUsize::new(0));
        let rt = || tokio::runtime::Builder::new_current_thread().enable_time().start_paused(true).build().expect("runtime");
        let (args, logs): (Vec<_>, Vec<_>) = tables.iter().enumerate().map(|(k, t)| dynamic_args(k, t.clone(), &fills_total)).unzip();
        let multi = match rt().block_on(run_backtests(Arc::clone(&constant), args)) {
            Ok(m) => m,
            Err(e) => bad!("run-backtests-failed", "run_backtests failed: {e}"),
        };
        if multi.num_backtests != tables.len() || multi.summaries.len() != tables.len() {
            bad!("summary-count", "{} summaries for {} backtests", multi.summaries.len(), tables.len());
        }
        for k in 0..tables.len() {
            let log = logs[k].lock().unwrap();
            if let Err((sig, msg)) = judge_consumption("in-memory-concurrent", &s, k, &log) {
                bad!(sig, "{msg}");
            }
            if multi.summaries[k].id.as_str() != format!("bt{k}") {
                bad!("in-memory-concurrent:summary-id", "summary {k} carries id {}", multi.summaries[k].id);
            }
        }
        // and one of them alone, a second time over the same shared data
        let (args, log) = dynamic_args(0, tables[0].clone(), &fills_total);
        if let Err(e) = rt().block_on(backtest(Arc::clone(&constant), args)) {
            bad!("backtest-failed", "backtest 0 alone failed: {e}");
        }
        if let Err((sig, msg)) = judge_consumption("in-memory-alone", &s, 0, &log.lock().unwrap()) {
            bad!(sig, "{msg}");
        }
        rep.class_if(tables.len() >= 2, "two_or_more_concurrent");
        rep.class_if(tables.len() > 32, "more_than_32_concurrent");
        rep.class_if(s.dataset.len() > 128, "dataset_over_128");
        rep.class_if(s.dataset.len() > 512, "dataset_over_512");
        rep.class_if(s.trades.windows(2).any(|w| w[1].1 < w[0].1), "timestamps_not_monotonic");
        rep.class_if(s.trades.iter().scan(0i64, |mx, (_, t)| { let behind = *mx - *t; *mx = (*mx).max(*t); Some(behind) }).any(|b| b > 5_000), "item_more_than_5s_behind");
        rep.class_if(s.reconnects > 0, "reconnect_notice_in_dataset");
        rep.nontrivial = tables.len() >= 2 && s.dataset.len() >= 20;
        rep
    }
}


// ---------------------------------------------------------------------------------------------
// system_audit_modes: the steps of backtest() with the audit stream switched on
// ---------------------------------------------------------------------------------------------

#[derive(Debug, Clone, Serialize, Deserialize)]
pub struct SysCase {
    pub events: Vec<EvGen>,
    /// 0: audit disabled; 1: enabled, stream never taken; 2: taken, read for `read_ticks` ticks,
    /// then dropped; 3: taken and read to the end by a task
    pub audit: u8,
    pub read_ticks: u16,
}

/// A backtest system assembled through `SystemBuild` exactly as `backtest()` does, but with
/// `AuditMode::Enabled` and different audit consumers: whoever listens (or stops listening), the
/// engine is fed the whole dataset before `shutdown_after_backtest` returns it.
pub struct SystemAuditModes;

impl Check for SystemAuditModes {
    type Case = SysCase;
    const NAME: &'static str = "system_audit_modes";

    fn normalise(mut case: SysCase) -> SysCase {
        for e in &mut case.events {
            e.price_q = 1 + e.price_q % 1999;
            e.lag_s = 0;
        }
        case
    }

    fn strategy(tier: Tier) -> BoxedStrategy<SysCase> {
        let big = if tier == Tier::Quick { 700usize } else { 2500usize };
        (
            prop_oneof![1 => prop::collection::vec((0u8..3, 1u16..2000, prop::bool::weighted(0.05)), 1..40), 1 => prop::collection::vec((0u8..3, 1u16..2000, prop::bool::weighted(0.05)), 1..big)],
            0u8..4,
            prop_oneof![Just(0u16), 0u16..50, 0u16..2500],
        )
            .prop_map(|(ev, audit, read_ticks)| SysCase { events: ev.into_iter().map(|(inst, price_q, reconnecting)| EvGen { inst, price_q, reconnecting, lag_s: 0 }).collect(), audit, read_ticks })
            .boxed()
    }

    fn eval(case: &SysCase) -> CaseReport {
        use barter::{
            EngineEvent,
            engine::{clock::HistoricalClock, execution_tx::MultiExchangeTxMap},
            execution::builder::{ExecutionBuild, ExecutionBuilder},
            strategy::DefaultStrategy,
            system::builder::{AuditMode, EngineFeedMode, SystemBuild},
        };
        let mut rep = CaseReport::new();
        let bt = BtCase { two_exchanges: true, n_instruments: 3, events: case.events.clone(), tables: vec![vec![]], latency_ms: 0, fee_sel: 0, threads_sel: 0, crowd: 0 };
        let s = setup(&bt);
        if s.trades.is_empty() || !matches!(s.dataset[0], MarketStreamEvent::Item(_)) {
            return rep;
        }
        let audit_mode = case.audit % 4;
        let rt = tokio::runtime::Builder::new_current_thread().enable_time().start_paused(true).build().expect("runtime");
        let outcome: Result<Vec<(usize, i64)>, (String, String)> = rt.block_on(async {
            let data = MarketDataInMemory::new(Arc::new(s.dataset.clone()));
            let clock = data.time_first_event().await.map(HistoricalClock::new).map_err(|e| ("time-first-event".to_string(), format!("{e}")))?;
            let market_stream = data.stream().await.map_err(|e| ("stream".to_string(), format!("{e}")))?;
            let ExecutionBuild { execution_tx_map, account_channel, futures } = ExecutionBuilder::new(&s.indexed).build();
            let mut state = s.state.clone();
            state.trading = TradingState::Disabled;
            let engine: Engine<HistoricalClock, BtState, MultiExchangeTxMap, DefaultStrategy<BtState>, DefaultRiskManager<BtState>> = Engine::new(clock, state, execution_tx_map, DefaultStrategy::default(), DefaultRiskManager::default());
            let mut system = SystemBuild::<_, EngineEvent<DataKind>, _>::new(engine, EngineFeedMode::Stream, if audit_mode == 0 { AuditMode::Disabled } else { AuditMode::Enabled }, market_stream, account_channel, futures)
                .init()
                .await
                .map_err(|e| ("system-init".to_string(), format!("{e}")))?;
            let mut drainer = None;
            match audit_mode {
                2 => {
                    let mut audit = system.take_audit().ok_or_else(|| ("audit-missing".to_string(), "audit enabled but take_audit() returned None".to_string()))?;
                    for _ in 0..case.read_ticks {
                        if tokio::time::timeout(Duration::from_secs(5), StreamExt::next(&mut audit.updates)).await.is_err() {
                            break;
                        }
                    }
                    drop(audit);
                }
                3 => {
                    let mut audit = system.take_audit().ok_or_else(|| ("audit-missing".to_string(), "audit enabled but take_audit() returned None".to_string()))?;
                    drainer = Some(tokio::spawn(async move { while StreamExt::next(&mut audit.updates).await.is_some() {} }));
                }
                _ => {}
            }
            let finished = tokio::time::timeout(Duration::from_secs(3600), tokio::spawn(system.shutdown_after_backtest())).await;
            if let Some(d) = drainer {
                d.abort();
            }
            match finished {
                Err(_) => Err(("system-did-not-finish".to_string(), "shutdown_after_backtest did not return within an hour of virtual time".to_string())),
                Ok(Err(join)) => Err(("system-panicked".to_string(), format!("shutdown_after_backtest panicked: {join}"))),
                Ok(Ok(Err(join))) => Err(("system-task-failed".to_string(), format!("a system task failed: {join}"))),
                Ok(Ok(Ok((engine, _audit)))) => Ok(engine.state.global.market.clone()),
            }
        });
        let what = ["audit disabled", "audit enabled, stream never taken", "audit stream taken, read, then dropped", "audit stream read to the end"][audit_mode as usize];
        match outcome {
            Err((sig, msg)) => {
                rep.fail(format!("system:{sig}"), format!("{what} ({} dataset items): {msg}", s.dataset.len()));
                return rep;
            }
            Ok(seen) => {
                if seen != s.trades {
                    rep.fail("system:dataset-consumption", format!("{what}, {} ticks read before the consumer went away: the engine returned by shutdown_after_backtest saw {} market items, the dataset has {}; first difference at {:?}", case.read_ticks, seen.len(), s.trades.len(), seen.iter().zip(&s.trades).position(|(a, b)| a != b)));
                    return rep;
                }
            }
        }
        rep.class(["audit_disabled", "audit_never_taken", "audit_taken_then_dropped", "audit_read_to_the_end"][audit_mode as usize]);
        rep.class_if(s.dataset.len() > 512, "dataset_over_512");
        rep.nontrivial = audit_mode != 0 && s.dataset.len() >= 20;
        rep
    }
}

// ---------------------------------------------------------------------------------------------

#[derive(Debug, Clone, Serialize, Deserialize)]
pub struct MemCase {
    pub events: Vec<EvGen>,
    /// number of streams taken from the one dataset and polled in an interleaved fashion
    #[serde(default)]
    pub n_streams: u8,
    /// which stream yields next (selector), until exhausted; the rest is drained in stream order
    #[serde(default)]
    pub schedule: Vec<u8>,
}

pub struct InMemoryData;

impl Check for InMemoryData {
    type Case = MemCase;
    const NAME: &'static str = "in_memory_data";

    fn normalise(mut case: MemCase) -> MemCase {
        for e in &mut case.events {
            e.price_q = 1 + e.price_q % 1999;
            e.lag_s %= 900;
        }
        case
    }

    fn strategy(_tier: Tier) -> BoxedStrategy<MemCase> {
        (prop::collection::vec((0u8..3, 1u16..2000, prop::bool::weighted(0.2), prop_oneof![6 => Just(0u16), 1 => 1u16..900]), 1..120), 1u8..=4, prop::collection::vec(any::<u8>(), 0..200))
            .prop_map(|(ev, n_streams, schedule)| MemCase { events: ev.into_iter().map(|(inst, price_q, reconnecting, lag_s)| EvGen { inst, price_q, reconnecting, lag_s }).collect(), n_streams, schedule })
            .boxed()
    }

    fn eval(case: &MemCase) -> CaseReport {
        let mut rep = CaseReport::new();
        // unlike the backtest dataset, reconnect notices may come first here
        let mut events: Vec<MarketStreamEvent<InstrumentIndex, DataKind>> = Vec::new();
        for (k, e) in case.events.iter().enumerate() {
            if e.reconnecting {
                events.push(MarketStreamEvent::Reconnecting(ExchangeId::BinanceSpot));
            } else {
                let t = ts(T0_MS + 1_000 * (k as i64 + 1) - (1_000 * e.lag_s as i64).min(1_000 * k as i64));
                events.push(MarketStreamEvent::Item(MarketEvent { time_exchange: t, time_received: t, exchange: ExchangeId::BinanceSpot, instrument: InstrumentIndex(e.inst as usize), kind: DataKind::Trade(PublicTrade { id: format!("{k}"), price: e.price_q as f64, amount: 1.0, side: Side::Buy }) }));
            }
        }
        let first_item_time = events.iter().find_map(|e| match e { MarketStreamEvent::Item(i) => Some(i.time_exchange), _ => None });
        let Some(first) = first_item_time else { return rep };
        let data = MarketDataInMemory::new(Arc::new(events.clone()));
        let t = futures::executor::block_on(data.time_first_event());
        if t.as_ref().ok() != Some(&first) {
            rep.fail("time-first-event", format!("time_first_event {t:?}, first item is at {first}"));
            return rep;
        }
        for round in 0..2 {
            let got: Vec<_> = futures::executor::block_on(async { data.stream().await.map(|s| s.collect::<Vec<_>>()) }).map(|f| futures::executor::block_on(f)).unwrap_or_default();
            if got != events {
                rep.fail("stream-order", format!("stream() call {round}: yielded {} events, dataset has {}; first difference at {:?}", got.len(), events.len(), got.iter().zip(&events).position(|(a, b)| a != b)));
                return rep;
            }
        }
        // several consumers of the one shared dataset (and of a clone of it), advanced in a generated
        // interleaving: each must be handed the whole dataset, in order
        let n_streams = case.n_streams.clamp(1, 4) as usize;
        let copy = data.clone();
        let mut streams: Vec<_> = (0..n_streams)
            .map(|i| Box::pin(futures::executor::block_on(if i % 2 == 0 { data.stream() } else { copy.stream() }).expect("stream")))
            .collect();
        let mut got: Vec<Vec<MarketStreamEvent<InstrumentIndex, DataKind>>> = vec![Vec::new(); n_streams];
        let mut switches = 0usize;
        let mut prev = usize::MAX;
        for sel in &case.schedule {
            let i = *sel as usize % n_streams;
            if let Some(ev) = futures::executor::block_on(streams[i].next()) {
                got[i].push(ev);
                if prev != i {
                    switches += 1;
                }
                prev = i;
            }
        }
        for (i, st) in streams.iter_mut().enumerate() {
            while let Some(ev) = futures::executor::block_on(st.next()) {
                got[i].push(ev);
            }
            if got[i] != events {
                rep.fail("interleaved-streams", format!("stream {i} of {n_streams} over one dataset, polled in the order {:?}: yielded {} events, dataset has {}; first difference at {:?}", case.schedule, got[i].len(), events.len(), got[i].iter().zip(&events).position(|(a, b)| a != b)));
                return rep;
            }
        }
        rep.class_if(matches!(events[0], MarketStreamEvent::Reconnecting(_)), "starts_with_reconnect_notice");
        rep.class_if(n_streams >= 2 && switches >= 3, "interleaved_consumers");
        rep.class_if(case.events.iter().enumerate().any(|(k, e)| k > 0 && !e.reconnecting && e.lag_s > 0), "timestamps_not_monotonic");
        rep.nontrivial = events.len() >= 5 && n_streams >= 2 && switches >= 3;
        rep
    }
}

pub fn run(ctx: &mut Ctx) {
    ctx.rule = "backtests_paused: datasets of 1..80|300 market items (public trades over 1..3 instruments on 1..2 mock exchanges, unique increasing times, 5% reconnect notices) served with a virtual gap of 2 x latency + 5 ms; 1..12|24 concurrent backtests, each strategy a table (market-item ordinal -> market order) firing once per ordinal and never on the last two ordinals; mock latency 0..49 ms, fee in {0, 0.1%, 1%}; tokio paused current-thread runtime; every backtest is judged against its own table (market items seen = dataset in order, fills, final balances/positions, summary) and the first six are re-run alone and compared. backtests_threads: same through multi-thread runtimes with 1/2/4/8 workers, the dataset's last item gated on all expected fills and on every engine having processed its initial account snapshot (20 s watchdog => skipped, 60 s => inconclusive). non-trivial = >= 4 concurrent backtests with >= 4 different tables, every backtest has >= 1 fill, dataset >= 20 items; distinct by hash of the case. in_memory_data: MarketDataInMemory stream()/time_first_event on generated event lists; 1..4 streams taken from the one dataset (and a clone) polled in a generated interleaving must each yield the whole dataset (non-trivial = >= 2 streams, >= 3 switches). backtests_in_memory: 1..8 (in one case of 17 a sweep of 33..96) concurrent backtests over the crate's MarketDataInMemory (datasets 1..40 or 1..700|2500 items, zero gap, paused current-thread runtime), one item in five lags 1..900 s behind its place (timestamps not monotonic), judged on consumption only: each engine saw every market item and reconnect notice once, in order; then one backtest alone over the same shared data. system_audit_modes: the steps of backtest() through SystemBuild with the audit stream disabled / enabled and never taken / taken, read for 0..2500 ticks and dropped / read to the end (datasets 1..40 or 1..700|2500): the engine returned by shutdown_after_backtest saw the whole dataset. The solo-vs-concurrent comparison includes the fills' trade / order ids and the open positions' fill ids.".into();
    ctx.assumptions = vec![
        "strategies decide from the number of market items seen only, once per ordinal (decisions independent of the timing of execution responses), and place nothing on the last two ordinals".into(),
        "timestamps are set aside (the historical clock mixes in wall-clock time)".into(),
        "paused flavour: tokio test-util clock; threaded flavour samples OS schedules, it does not enumerate them".into(),
        "initial balances large enough that no order is rejected".into(),
    ];
    ctx.run_regressions::<BacktestsPaused>();
    ctx.run_regressions::<BacktestsThreads>();
    ctx.run_regressions::<InMemoryData>();
    ctx.run_regressions::<BacktestsInMemory>();
    ctx.run::<InMemoryData>(ctx.tier.pick(5_000, 50_000));
    ctx.run::<BacktestsPaused>(ctx.tier.pick(6_000, 100_000));
    ctx.run::<BacktestsInMemory>(ctx.tier.pick(1_500, 20_000));
    ctx.run_regressions::<SystemAuditModes>();
    ctx.run::<SystemAuditModes>(ctx.tier.pick(2_000, 30_000));
    // real threads inside: run the cases of this check one at a time
    let saved = ctx.threads;
    ctx.threads = 1;
    ctx.run::<BacktestsThreads>(ctx.tier.pick(40, 600));
    ctx.threads = saved;
}

pub fn replay(ctx: &mut Ctx, doc: &Value) -> bool {
    ctx.replay::<BacktestsPaused>(doc) || ctx.replay::<BacktestsThreads>(doc) || ctx.replay::<InMemoryData>(doc) || ctx.replay::<BacktestsInMemory>(doc) || ctx.replay::<SystemAuditModes>(doc)
}
