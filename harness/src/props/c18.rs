//! C18 — Reported drawdowns are the peak-to-trough declines of the value curve.
//!
//! Check `drawdown_scan`: generated timed value curves (positive running maxima) are fed to
//! `DrawdownGenerator` (+ `MaxDrawdownGenerator`, `MeanDrawdownGenerator`), to
//! `TearSheetAssetGenerator::update_from_balance` and to `TearSheetGenerator::update_from_position`
//! (cumulative PnL curve); everything reported is compared with an independent peak-to-trough scan.

use crate::framework::{CaseReport, Check, Ctx, Tier};
use crate::props::gens::{ts, T0_MS};
use barter::{
    Timed,
    engine::state::position::PositionExited,
    statistic::{
        metric::drawdown::{Drawdown, DrawdownGenerator, max::MaxDrawdownGenerator, mean::MeanDrawdownGenerator},
        summary::{asset::TearSheetAssetGenerator, instrument::TearSheetGenerator},
        time::Daily,
    },
};
use barter_execution::{
    balance::{AssetBalance, Balance},
    trade::{AssetFees, TradeId},
};
use barter_instrument::{Side, asset::QuoteAsset};
use barter_integration::snapshot::Snapshot;
use proptest::prelude::*;
use rust_decimal::Decimal;
use serde::{Deserialize, Serialize};
use serde_json::Value;

#[derive(Debug, Clone, Copy, PartialEq, Eq, Serialize, Deserialize)]
pub struct Pt {
    /// time step in ms (>= 1)
    pub dt: u32,
    /// value = grid * 10 + perturbation (units 0.1); the first point is forced positive
    pub grid: i16,
    pub perturb: i8,
    /// query the live generators (not a copy) for the current drawdown after this point
    #[serde(default)]
    pub query: bool,
    /// balance layer: this many eighths of the total are locked in open orders (free < total);
    /// position layer: entry price and size of the closed position vary with it
    #[serde(default)]
    pub locked: u8,
}

#[derive(Debug, Clone, Serialize, Deserialize)]
pub struct CurveCase {
    pub points: Vec<Pt>,
}

fn curve(case: &CurveCase) -> Vec<(i64, Decimal)> {
    let mut t = T0_MS;
    let mut out = Vec::new();
    for (i, p) in case.points.iter().enumerate() {
        t += p.dt.max(1) as i64;
        let mut raw = p.grid as i64 * 10 + p.perturb as i64;
        if i == 0 && raw <= 0 {
            raw = raw.abs() + 1;
        }
        out.push((t, Decimal::new(raw, 1)));
    }
    out
}

#[derive(Debug, Clone, PartialEq)]
struct Dd {
    depth: Decimal,
    start: i64,
    end: i64,
}

/// Independent scan: completed drawdowns per prefix and the one in progress.
struct Scan {
    peak: Decimal,
    t_peak: i64,
    depth: Decimal,
    t_now: i64,
    completed: Vec<Dd>,
}

impl Scan {
    fn new(t: i64, v: Decimal) -> Self {
        Self { peak: v, t_peak: t, depth: Decimal::ZERO, t_now: t, completed: vec![] }
    }
    /// returns the drawdown completed by this point, if any
    fn step(&mut self, t: i64, v: Decimal) -> Option<Dd> {
        self.t_now = t;
        if v > self.peak {
            let done = (!self.depth.is_zero()).then(|| Dd { depth: self.depth, start: self.t_peak, end: t });
            self.peak = v;
            self.t_peak = t;
            self.depth = Decimal::ZERO;
            if let Some(d) = &done {
                self.completed.push(d.clone());
            }
            done
        } else {
            let d = (self.peak - v) / self.peak;
            if d > self.depth {
                self.depth = d;
            }
            None
        }
    }
    fn in_progress(&self) -> Option<Dd> {
        (!self.depth.is_zero()).then(|| Dd { depth: self.depth, start: self.t_peak, end: self.t_now })
    }
}

fn queries(case: &CurveCase) -> Vec<usize> {
    case.points.iter().enumerate().filter(|(_, p)| p.query).map(|(i, _)| i).collect()
}

fn conv(d: &Drawdown) -> Dd {
    Dd { depth: d.value, start: d.time_start.timestamp_millis(), end: d.time_end.timestamp_millis() }
}

/// Compare max / mean against a list of reported drawdowns.
fn check_max_mean(
    tag: &str,
    list: &[Dd],
    max: Option<Dd>,
    mean: Option<(Decimal, i64)>,
) -> Result<(), (String, String)> {
    if list.is_empty() {
        if max.is_some() || mean.is_some() {
            return Err((format!("{tag}:max-mean-without-drawdowns"), format!("no drawdown was reported, yet max={max:?} mean={mean:?}")));
        }
        return Ok(());
    }
    let Some(max) = max else {
        return Err((format!("{tag}:max-missing"), format!("{} drawdowns reported but no maximum", list.len())));
    };
    let greatest = list.iter().map(|d| d.depth).max().unwrap();
    if max.depth != greatest || !list.contains(&max) {
        return Err((format!("{tag}:max-drawdown"), format!("maximum drawdown {max:?} is not the deepest of the reported {list:?}")));
    }
    let Some((mean_depth, mean_ms)) = mean else {
        return Err((format!("{tag}:mean-missing"), format!("{} drawdowns reported but no mean", list.len())));
    };
    let n = Decimal::from(list.len());
    let exp_depth = list.iter().map(|d| d.depth).sum::<Decimal>() / n;
    if (mean_depth - exp_depth).abs() > Decimal::new(1, 20) * (Decimal::ONE + exp_depth) {
        return Err((format!("{tag}:mean-depth"), format!("mean drawdown {mean_depth} != arithmetic mean {exp_depth} of {list:?}")));
    }
    let durations: Vec<i64> = list.iter().map(|d| d.end - d.start).collect();
    let exp_ms = durations.iter().sum::<i64>() as f64 / durations.len() as f64;
    // integer running mean truncates by < 1 ms per update
    if (mean_ms as f64 - exp_ms).abs() > list.len() as f64 + 1.0 {
        return Err((format!("{tag}:mean-duration"), format!("mean drawdown duration {mean_ms} ms != mean {exp_ms} ms of {durations:?}")));
    }
    Ok(())
}

pub struct DrawdownScan;

impl Check for DrawdownScan {
    type Case = CurveCase;
    const NAME: &'static str = "drawdown_scan";

    fn strategy(tier: Tier) -> BoxedStrategy<CurveCase> {
        let max = match tier {
            Tier::Quick => 60,
            Tier::Thorough => 150,
        };
        prop::collection::vec(
            (
                prop_oneof![4 => 1u32..1000, 1 => 1u32..100_000_000],
                prop_oneof![
                    // small grid: equal consecutive values, exact recoveries, new highs by a tick
                    30 => 1i16..8,
                    3 => 1i16..200,
                    1 => -5i16..1, // rare: most curves stay positive
                ],
                prop_oneof![6 => Just(0i8), 2 => -1i8..=1, 1 => -9i8..=9],
                prop::bool::weighted(0.15),
                prop_oneof![2 => Just(0u8), 1 => 0u8..=8],
            ),
            1..max,
        )
        .prop_map(|v| CurveCase { points: v.into_iter().map(|(dt, grid, perturb, query, locked)| Pt { dt, grid, perturb, query, locked }).collect() })
        .boxed()
    }

    fn eval(case: &CurveCase) -> CaseReport {
        let mut rep = CaseReport::new();
        let pts = curve(case);
        if pts.is_empty() {
            return rep;
        }
        macro_rules! bad {
            ($sig:expr, $($fmt:tt)+) => {{ rep.fail($sig, format!($($fmt)+)); return rep; }};
        }

        // ---- layer (a)+(b): DrawdownGenerator::default / ::init + Max + Mean --------------------
        let mut persisted = 0usize;
        for use_init in [false, true] {
            let tag = if use_init { "generator-init" } else { "generator-default" };
            let mut g = if use_init {
                DrawdownGenerator::init(Timed::new(pts[0].1, ts(pts[0].0)))
            } else {
                let mut g = DrawdownGenerator::default();
                if let Some(d) = g.update(Timed::new(pts[0].1, ts(pts[0].0))) {
                    bad!(format!("{tag}:drawdown-on-first-point"), "first point reported a drawdown {d:?}");
                }
                g
            };
            // a twin fed the same curve at microsecond-precise instants (exchange clocks are not
            // millisecond-aligned); where `locked % 4 == 1` it is persisted and restored (serde), which
            // must give back the same generator: what it reports afterwards is still the decline from
            // the true peak instant
            let tsu = |t: i64| ts(t) + chrono::Duration::microseconds((t % 7) * 137 + 1);
            let mut twin = if use_init { DrawdownGenerator::init(Timed::new(pts[0].1, tsu(pts[0].0))) } else {
                let mut g = DrawdownGenerator::default();
                let _ = g.update(Timed::new(pts[0].1, tsu(pts[0].0)));
                g
            };
            let mut scan = Scan::new(pts[0].0, pts[0].1);
            let mut maxg = MaxDrawdownGenerator::default();
            let mut meang = MeanDrawdownGenerator::default();
            for (i, (t, v)) in pts.iter().enumerate().skip(1) {
                let got = g.update(Timed::new(*v, ts(*t))).map(|d| {
                    // the max / mean generators are either fed from empty, or (second flavour)
                    // constructed from the first completed drawdown through their init()
                    if use_init && scan.completed.is_empty() {
                        maxg = MaxDrawdownGenerator::init(d.clone());
                        meang = MeanDrawdownGenerator::init(d.clone());
                    } else {
                        maxg.update(&d);
                        meang.update(&d);
                    }
                    conv(&d)
                });
                let twin_done = twin.update(Timed::new(*v, tsu(*t)));
                if case.points[i].locked % 4 == 1 {
                    let restored: Result<DrawdownGenerator, _> = serde_json::to_string(&twin).and_then(|s| serde_json::from_str(&s));
                    match restored {
                        Ok(r) if r == twin && r.clone().generate() == twin.clone().generate() => {
                            twin = r;
                            persisted += 1;
                        }
                        other => bad!(format!("{tag}:persisted-generator-differs"), "point {i} ({t},{v}): generator {twin:?} (current drawdown {:?}) persisted and restored is {other:?}", twin.clone().generate()),
                    }
                }
                let exp = scan.step(*t, *v);
                if twin_done.as_ref().map(|d| (d.value, d.time_start, d.time_end)) != exp.as_ref().map(|e| (e.depth, tsu(e.start), tsu(e.end))) {
                    bad!(format!("{tag}:completed-drawdown-microsecond-instants"), "point {i} ({t},{v}): fed at microsecond-precise instants (restored from its persisted form {persisted} times) update returned {twin_done:?}, peak-to-trough scan gives {exp:?} at those instants");
                }
                if got != exp {
                    bad!(format!("{tag}:completed-drawdown"), "point {i} ({t},{v}): update returned {got:?}, peak-to-trough scan gives {exp:?} (curve {pts:?})");
                }
                let live = case.points[i].query;
                let cur = if live { g.generate() } else { g.clone().generate() }.map(|d| conv(&d));
                if cur != scan.in_progress() {
                    bad!(format!("{tag}:current-drawdown"), "point {i} ({t},{v}): current drawdown {cur:?} (live query: {live}), scan gives {:?} (curve {pts:?}, live queries after {:?})", scan.in_progress(), queries(case));
                }
                if live && g.generate().map(|d| conv(&d)) != cur {
                    bad!(format!("{tag}:current-drawdown-query-not-idempotent"), "point {i} ({t},{v}): asking twice for the current drawdown gives {cur:?} then something else");
                }
                let max = maxg.generate().map(|m| conv(&m.0));
                let mean = meang.generate().map(|m| (m.mean_drawdown, m.mean_drawdown_ms));
                if let Err((sig, msg)) = check_max_mean(tag, &scan.completed, max, mean) {
                    bad!(sig, "point {i}: {msg}");
                }
            }
        }

        // ---- layer (c): TearSheetAssetGenerator over balances ----------------------------------
        {
            // the drawdown curve of an asset is its TOTAL balance; part of it may be locked in orders
            let bal_locked = |v: Decimal, eighths: u8| Balance::new(v, if v > Decimal::ZERO { v - v * Decimal::from(eighths.min(8)) / Decimal::from(8) } else { v });
            let bal = |v: Decimal| Balance::new(v, v);
            let mut g = TearSheetAssetGenerator::init(&Timed::new(bal_locked(pts[0].1, case.points[0].locked), ts(pts[0].0)));
            // a second generator that is asked for interim sheets while it keeps being updated
            let mut live = g.clone();
            let mut scan = Scan::new(pts[0].0, pts[0].1);
            for (i, (t, v)) in pts.iter().enumerate().skip(1) {
                let b = bal_locked(*v, case.points[i].locked);
                g.update_from_balance(Snapshot(&AssetBalance { asset: 0u8, balance: b, time_exchange: ts(*t) }));
                live.update_from_balance(Snapshot(&AssetBalance { asset: 0u8, balance: b, time_exchange: ts(*t) }));
                scan.step(*t, *v);
                if case.points[i].query {
                    let sheet = live.generate();
                    if sheet.drawdown.as_ref().map(conv) != scan.in_progress() || sheet.balance_end != Some(b) {
                        bad!("asset-sheet:interim-current-drawdown", "balance {i}: interim sheet of a live generator reports drawdown {:?} / balance_end {:?}, scan {:?} / {v} (curve {pts:?}, interim sheets after {:?})", sheet.drawdown, sheet.balance_end, scan.in_progress(), queries(case));
                    }
                }
                // one generate() per generator clone (generate folds the in-progress drawdown in)
                let sheet = g.clone().generate();
                let mut all = scan.completed.clone();
                all.extend(scan.in_progress());
                if sheet.drawdown.as_ref().map(conv) != scan.in_progress() {
                    bad!("asset-sheet:current-drawdown", "balance {i}: sheet drawdown {:?}, scan {:?}", sheet.drawdown, scan.in_progress());
                }
                if sheet.balance_end != Some(b) {
                    bad!("asset-sheet:balance-end", "balance {i}: balance_end {:?} != {v}", sheet.balance_end);
                }
                if let Err((sig, msg)) = check_max_mean(
                    "asset-sheet",
                    &all,
                    sheet.drawdown_max.map(|m| conv(&m.0)),
                    sheet.drawdown_mean.map(|m| (m.mean_drawdown, m.mean_drawdown_ms)),
                ) {
                    bad!(sig, "balance {i}: {msg}");
                }
            }
        }

        // ---- layer (d): TearSheetGenerator over the cumulative PnL of closed positions ----------
        {
            let mut g = TearSheetGenerator::init(ts(T0_MS));
            let mut live = g.clone();
            let mut scan: Option<Scan> = None;
            let mut prev = Decimal::ZERO;
            // a new session may be started on the same generators (`reset`): from then on the sheet
            // describes the new session's curve only
            // (like the first value of the curve, the first value of the new session is positive)
            let reset_at = (1..pts.len()).find(|i| case.points[*i].locked == 7 && pts[*i].1 > Decimal::ZERO);
            for (i, (t, v)) in pts.iter().enumerate() {
                if reset_at == Some(i) {
                    g.reset(ts(*t - 1));
                    live.reset(ts(*t - 1));
                    scan = None;
                    prev = Decimal::ZERO;
                }
                let exited: PositionExited<QuoteAsset, u8> = PositionExited {
                    instrument: 0,
                    side: Side::Buy,
                    // entry notional varies from position to position (returns are PnL / notional: a
                    // curve of cumulative returns differs from the PnL curve)
                    price_entry_average: Decimal::from(100 + 37 * (case.points[i].locked as u32 % 9)),
                    quantity_abs_max: Decimal::new(1 + 7 * (case.points[i].locked as i64 % 5), 1),
                    pnl_realised: *v - prev,
                    fees_enter: AssetFees::quote_fees(Decimal::ZERO),
                    fees_exit: AssetFees::quote_fees(Decimal::ZERO),
                    time_enter: ts(*t - 1),
                    time_exit: ts(*t),
                    trades: vec![TradeId::new(format!("t{i}"))],
                };
                prev = *v;
                g.update_from_position(&exited);
                live.update_from_position(&exited);
                match &mut scan {
                    None => scan = Some(Scan::new(*t, *v)),
                    Some(s) => {
                        s.step(*t, *v);
                    }
                }
                let s = scan.as_ref().unwrap();
                if case.points[i].query {
                    let sheet = live.generate(Decimal::ZERO, Daily);
                    if sheet.pnl_drawdown.as_ref().map(conv) != s.in_progress() || sheet.pnl != *v {
                        bad!("instrument-sheet:interim-current-drawdown", "position {i}: interim sheet of a live generator reports pnl_drawdown {:?} / pnl {}, scan {:?} / {v} (curve {pts:?}, interim sheets after {:?})", sheet.pnl_drawdown, sheet.pnl, s.in_progress(), queries(case));
                    }
                }
                let sheet = g.clone().generate(Decimal::ZERO, Daily);
                if sheet.pnl != *v {
                    bad!("instrument-sheet:pnl", "after {} closed positions pnl {} != cumulative {v}", i + 1, sheet.pnl);
                }
                let mut all = s.completed.clone();
                all.extend(s.in_progress());
                if sheet.pnl_drawdown.as_ref().map(conv) != s.in_progress() {
                    bad!("instrument-sheet:current-drawdown", "position {i}: sheet pnl_drawdown {:?}, scan {:?}", sheet.pnl_drawdown, s.in_progress());
                }
                if let Err((sig, msg)) = check_max_mean(
                    "instrument-sheet",
                    &all,
                    sheet.pnl_drawdown_max.map(|m| conv(&m.0)),
                    sheet.pnl_drawdown_mean.map(|m| (m.mean_drawdown, m.mean_drawdown_ms)),
                ) {
                    bad!(sig, "position {i}: {msg}");
                }
            }
        }

        // ---- layer (e): the trading summary generator kept by a consumer of the audit stream --------
        // two assets on two venues; the second venue's clock runs 5 s ahead, so the summary's own
        // clock is usually past the first asset's next snapshot: each asset's curve is still its own
        {
            use crate::props::world::{self, InstrumentDef, KindDef, UnitDef};
            use barter_instrument::asset::AssetIndex;
            // two venues whose order in the index (declaration order of the exchange ids: Mock first)
            // is not the alphabetical order of their instrument / asset names
            let defs = vec![
                InstrumentDef { exchange: 0, base: 0, quote: 2, kind: KindDef::Spot, unit: UnitDef::NoSpec },
                InstrumentDef { exchange: 1, base: 1, quote: 3, kind: KindDef::Spot, unit: UnitDef::NoSpec },
            ];
            let indexed = world::index(&defs);
            let state = world::engine_state(&indexed, barter::engine::state::trading::TradingState::Disabled);
            let mut summary = barter::statistic::summary::TradingSummaryGenerator::init(Decimal::ZERO, ts(T0_MS), ts(T0_MS), &state.instruments, &state.assets);
            let a = AssetIndex(0);
            let b = AssetIndex(indexed.assets().len() - 1);
            let a_key = {
                let x = &indexed.assets()[0].value;
                barter_instrument::asset::ExchangeAsset::new(x.exchange, x.asset.name_internal.clone())
            };
            let i0 = barter_instrument::instrument::InstrumentIndex(0);
            let i1 = barter_instrument::instrument::InstrumentIndex(1);
            let i0_name = indexed.instruments()[0].value.name_internal.clone();
            let bal = |v: Decimal| Balance::new(v, v);
            let mut scan = Scan::new(pts[0].0, pts[0].1);
            let mut prev = Decimal::ZERO;
            let exit = |instrument, pnl: Decimal, t: i64, n: usize| PositionExited::<QuoteAsset, barter_instrument::instrument::InstrumentIndex> {
                instrument,
                side: Side::Buy,
                price_entry_average: Decimal::from(100),
                quantity_abs_max: Decimal::ONE,
                pnl_realised: pnl,
                fees_enter: AssetFees::quote_fees(Decimal::ZERO),
                fees_exit: AssetFees::quote_fees(Decimal::ZERO),
                time_enter: ts(t - 1),
                time_exit: ts(t),
                trades: vec![TradeId::new(format!("s{n}"))],
            };
            for (i, (t, v)) in pts.iter().enumerate() {
                summary.update_from_balance(Snapshot(&AssetBalance { asset: a, balance: bal(*v), time_exchange: ts(*t) }));
                // the same curve as the cumulative PnL of the instrument with index 0, updates keyed by
                // index as the engine emits them; the other instrument only ever gains
                summary.update_from_position(&exit(i0, *v - prev, *t, i));
                summary.update_from_position(&exit(i1, Decimal::ONE, *t, i));
                prev = *v;
                if i > 0 {
                    scan.step(*t, *v);
                }
                // the other venue reports with a clock 5 s ahead
                summary.update_from_balance(Snapshot(&AssetBalance { asset: b, balance: bal(Decimal::from(1000 + i as u32)), time_exchange: ts(*t + 5_000) }));
            }
            let sheets = summary.generate(Daily);
            let Some(sheet) = sheets.assets.get(&a_key) else {
                bad!("summary-asset-sheet:missing", "trading summary has no sheet for {a_key:?}");
            };
            let mut all = scan.completed.clone();
            all.extend(scan.in_progress());
            if sheet.balance_end != Some(bal(pts[pts.len() - 1].1)) || sheet.drawdown.as_ref().map(conv) != scan.in_progress() {
                bad!("summary-asset-sheet:curve", "asset fed through TradingSummaryGenerator::update_from_balance next to an asset whose venue clock runs 5 s ahead: balance_end {:?} / drawdown {:?}, its own curve ends at {} with {:?} in progress (curve {pts:?})", sheet.balance_end, sheet.drawdown, pts[pts.len() - 1].1, scan.in_progress());
            }
            if let Err((sig, msg)) = check_max_mean("summary-asset-sheet", &all, sheet.drawdown_max.clone().map(|m| conv(&m.0)), sheet.drawdown_mean.clone().map(|m| (m.mean_drawdown, m.mean_drawdown_ms))) {
                bad!(sig, "asset fed through TradingSummaryGenerator::update_from_balance: {msg}");
            }
            let Some(isheet) = sheets.instruments.get(&i0_name) else {
                bad!("summary-instrument-sheet:missing", "trading summary has no sheet for {i0_name}");
            };
            if isheet.pnl != pts[pts.len() - 1].1 || isheet.pnl_drawdown.as_ref().map(conv) != scan.in_progress() {
                bad!("summary-instrument-sheet:curve", "{i0_name} (instrument index 0 of [{}]) fed by index through TradingSummaryGenerator::update_from_position next to an instrument that only gains: sheet pnl {} / pnl_drawdown {:?}, its own curve ends at {} with {:?} in progress", indexed.instruments().iter().map(|i| i.value.name_internal.name().to_string()).collect::<Vec<_>>().join(", "), isheet.pnl, isheet.pnl_drawdown, pts[pts.len() - 1].1, scan.in_progress());
            }
            if let Err((sig, msg)) = check_max_mean("summary-instrument-sheet", &all, isheet.pnl_drawdown_max.clone().map(|m| conv(&m.0)), isheet.pnl_drawdown_mean.clone().map(|m| (m.mean_drawdown, m.mean_drawdown_ms))) {
                bad!(sig, "{i0_name} fed by index through TradingSummaryGenerator::update_from_position: {msg}");
            }

            // ---- layer (f): the asset statistics kept inside the engine state -----------------------
            // the curve arrives as account events: single balance updates and (where `locked` is odd)
            // full account snapshots, as an execution link sends them when it (re)initialises
            let mut state = state;
            let ex = indexed.find_exchange_index(indexed.assets()[0].value.exchange).expect("exchange of asset 0");
            let mut scan = Scan::new(pts[0].0, pts[0].1);
            let mut full = 0u32;
            for (i, (t, v)) in pts.iter().enumerate() {
                let balance = AssetBalance { asset: a, balance: bal(*v), time_exchange: ts(*t) };
                let kind = if case.points[i].locked % 2 == 1 {
                    full += 1;
                    barter_execution::AccountEventKind::Snapshot(barter_execution::AccountSnapshot { exchange: ex, balances: vec![balance], instruments: vec![] })
                } else {
                    barter_execution::AccountEventKind::BalanceSnapshot(Snapshot(balance))
                };
                let _ = state.update_from_account(&barter_execution::AccountEvent { exchange: ex, kind });
                if i > 0 {
                    scan.step(*t, *v);
                }
                let sheet = state.assets.asset_index(&a).statistics.clone().generate();
                let mut all = scan.completed.clone();
                all.extend(scan.in_progress());
                if sheet.balance_end != Some(bal(*v)) || sheet.drawdown.as_ref().map(conv) != scan.in_progress() {
                    bad!("engine-asset-statistics:curve", "balance {i} of the curve delivered to EngineState::update_from_account ({full} of them inside full account snapshots): statistics report balance_end {:?} / drawdown {:?}, the curve is at {v} with {:?} in progress (curve {pts:?})", sheet.balance_end, sheet.drawdown, scan.in_progress());
                }
                if let Err((sig, msg)) = check_max_mean("engine-asset-statistics", &all, sheet.drawdown_max.map(|m| conv(&m.0)), sheet.drawdown_mean.map(|m| (m.mean_drawdown, m.mean_drawdown_ms))) {
                    bad!(sig, "balance {i} delivered to EngineState::update_from_account ({full} inside full account snapshots): {msg}");
                }
            }
            rep.class_if(full > 0, "balance_delivered_inside_a_full_account_snapshot");
        }

        // classification from the scan
        let mut scan = Scan::new(pts[0].0, pts[0].1);
        let mut exact_recovery = false;
        let mut equal_consecutive = false;
        for w in pts.windows(2) {
            if w[1].1 == w[0].1 {
                equal_consecutive = true;
            }
        }
        for (t, v) in pts.iter().skip(1) {
            if *v == scan.peak && !scan.depth.is_zero() {
                exact_recovery = true;
            }
            scan.step(*t, *v);
        }
        rep.class_if(scan.completed.len() >= 2, "two_or_more_completed");
        rep.class_if(scan.in_progress().is_some(), "one_in_progress");
        rep.class_if(exact_recovery, "exact_recovery_to_peak");
        rep.class_if(equal_consecutive, "equal_consecutive_values");
        rep.class_if(pts.iter().any(|(_, v)| *v <= Decimal::ZERO), "non_positive_value_after_positive_peak");
        rep.class_if(scan.completed.is_empty() && scan.in_progress().is_none(), "monotone_no_drawdown");
        // an interim query during a decline that deepens afterwards
        let mut probe = Scan::new(pts[0].0, pts[0].1);
        let (mut asked_at_depth, mut deepened_after_query) = (None, false);
        for (i, (t, v)) in pts.iter().enumerate().skip(1) {
            if probe.step(*t, *v).is_some() || probe.depth.is_zero() {
                asked_at_depth = None;
            }
            if asked_at_depth.is_some_and(|d| probe.depth > d) {
                deepened_after_query = true;
            }
            if case.points[i].query && !probe.depth.is_zero() {
                asked_at_depth = Some(probe.depth);
            }
        }
        rep.class_if(deepened_after_query, "interim_query_then_deeper_decline");
        rep.class_if(persisted > 0, "generator_persisted_and_restored_mid_history");
        rep.class_if((1..pts.len()).any(|i| case.points[i].locked == 7 && pts[i].1 > Decimal::ZERO), "instrument_sheet_generator_reset_mid_history");
        rep.class_if(queries(case).len() >= 2, "two_or_more_interim_queries");
        rep.nontrivial = scan.completed.len() >= 2 && scan.in_progress().is_some();
        rep
    }
}

pub fn run(ctx: &mut Ctx) {
    ctx.rule = "drawdown_scan: 1..60|150 timed points, strictly increasing times, values from a small grid (1..7 mostly, up to 200, a few <= 0 after the first) with +-0.1 perturbations so that equal consecutive values, exact recoveries to the peak and new highs by one tick are common; first value > 0. Fed to DrawdownGenerator (default and init; plus a twin fed at microsecond-precise instants that is persisted and restored through serde at a quarter of the points and must come back equal), Max/Mean generators (updated from empty, and constructed from the first drawdown through init()), TearSheetAssetGenerator (balances; a third of them with part of the total locked, free < total) and TearSheetGenerator (cumulative PnL of closed positions with varying entry price / size; in one curve of 25 the generator is reset mid-history and describes the new session only), (final sheets only) a TradingSummaryGenerator over two venues whose index order is not their alphabetical order, fed by index with two assets whose venues' clocks are 5 s apart and with the curve as one instrument's cumulative PnL next to an instrument that only gains (sheets read by name), and the asset statistics inside an EngineState that receives the curve as account events (single balance updates; where `locked` is odd, full account snapshots), each compared after every point with an independent peak-to-trough scan; after 15% of the points the live generators themselves (not copies) are asked for the current drawdown / an interim tear sheet and keep being updated afterwards. non-trivial = >= 2 completed drawdowns and one in progress at the end; distinct by hash of the case.".into();
    ctx.assumptions = vec![
        "running maxima are positive (first value > 0); later values may be <= 0".into(),
        "tear-sheet generate() is called once per generator clone, as the engine API does (generate folds the in-progress drawdown into max/mean)".into(),
        "equal depth ties for the maximum drawdown: any of the tied drawdowns accepted; mean duration within (n+1) ms of the true mean (integer running mean)".into(),
    ];
    ctx.run_regressions::<DrawdownScan>();
    ctx.run::<DrawdownScan>(ctx.tier.pick(80_000, 1_200_000));
}

pub fn replay(ctx: &mut Ctx, doc: &Value) -> bool {
    ctx.replay::<DrawdownScan>(doc)
}
