//! C09 — Late or duplicate exchange messages never roll engine state back.
//!
//! Check `max_timestamp_wins`: per asset / order / instrument a set of timestamped messages
//! (balances, partially filled open reports, L1 books, public trades; equal timestamps present) is
//! delivered as a generated permutation with repetition, some packed into full account snapshots,
//! through `EngineState::update_from_account` / `update_from_market` and, in parallel, through
//! `Engine::process`. After every delivery the held item must carry the greatest timestamp
//! delivered so far for its key with a value delivered with that timestamp; other keys unchanged.

use crate::framework::{CaseReport, Check, Ctx, Tier};
use crate::props::enginekit::{Link, Rig};
use crate::props::gens::{ts, T0_MS};
use crate::props::world::{self, DefaultState, InstrumentDef, KindDef, UnitDef};
use barter::{
    EngineEvent,
    engine::{Processor, state::trading::TradingState},
};
use barter_data::{
    books::Level,
    event::{DataKind, MarketEvent},
    subscription::{book::OrderBookL1, trade::PublicTrade},
};
use barter_execution::{
    AccountEvent, AccountEventKind, AccountSnapshot, InstrumentAccountSnapshot,
    balance::{AssetBalance, Balance},
    order::{
        Order, OrderKey, OrderKind, TimeInForce,
        id::{ClientOrderId, OrderId, StrategyId},
        state::{ActiveOrderState, Open, OrderState},
    },
};
use barter_instrument::{Side, asset::AssetIndex, exchange::ExchangeIndex, instrument::InstrumentIndex};
use barter_integration::snapshot::Snapshot;
use proptest::prelude::*;
use rust_decimal::{Decimal, prelude::FromPrimitive};
use serde::{Deserialize, Serialize};
use serde_json::Value;
use std::collections::BTreeMap;

#[derive(Debug, Clone, Copy, PartialEq, Eq, PartialOrd, Ord, Serialize, Deserialize)]
pub enum Key {
    Balance { asset: u8 },
    Order { inst: u8, cid: u8 },
    L1 { inst: u8 },
    Trade { inst: u8 },
}

#[derive(Debug, Clone, Copy, PartialEq, Eq, Serialize, Deserialize)]
pub struct Msg {
    pub key: Key,
    /// exchange timestamp in seconds after T0 (small range: equal timestamps are common)
    pub t: u8,
    /// value payload
    pub v: u16,
}

#[derive(Debug, Clone, PartialEq, Eq, Serialize, Deserialize)]
pub enum Delivery {
    One(u16),
    /// several balance / order messages packed into one full account snapshot
    Packed(Vec<u16>),
    /// the engine records a cancel request it sent for the order the selected message is about
    /// (a no-op unless that message is an order report)
    CancelRequested(u16),
    /// the account (true) / market (false) connection of an exchange reports that it reconnects
    Reconnecting { account: bool, ex: u8 },
    /// the selected message's content arrives in a form that is not the item's own report kind: a
    /// full L2 book snapshot whose top is the selected L1 message, or an order report in the
    /// cancel-in-flight state wrapping the selected open report, or a public trade stamped like the
    /// selected trade whose price is not a number / outside the decimal range. Such a message may or may not be
    /// taken as news for the item, but it must never roll the item back.
    Indirect(u16),
}

#[derive(Debug, Clone, Serialize, Deserialize)]
pub struct StaleCase {
    pub msgs: Vec<Msg>,
    pub deliveries: Vec<Delivery>,
}

const QTY: u32 = 100;

fn defs() -> Vec<InstrumentDef> {
    vec![
        InstrumentDef { exchange: 1, base: 0, quote: 2, kind: KindDef::Spot, unit: UnitDef::NoSpec },
        InstrumentDef { exchange: 1, base: 1, quote: 2, kind: KindDef::Spot, unit: UnitDef::NoSpec },
        InstrumentDef { exchange: 2, base: 0, quote: 3, kind: KindDef::Spot, unit: UnitDef::NoSpec },
    ]
}

struct World {
    indexed: barter_instrument::index::IndexedInstruments,
}

impl World {
    fn inst(&self, sel: u8) -> InstrumentIndex {
        InstrumentIndex(sel as usize % self.indexed.instruments().len())
    }
    fn asset(&self, sel: u8) -> AssetIndex {
        AssetIndex(sel as usize % self.indexed.assets().len())
    }
    fn exchange_of_inst(&self, i: InstrumentIndex) -> ExchangeIndex {
        self.indexed.instruments()[i.index()].value.exchange.key
    }
    fn exchange_of_asset(&self, a: AssetIndex) -> ExchangeIndex {
        self.indexed.find_exchange_index(self.indexed.assets()[a.index()].value.exchange).unwrap()
    }
    /// canonical key (selectors resolved) so that two selectors naming one entity share history
    fn canon(&self, k: Key) -> Key {
        match k {
            Key::Balance { asset } => Key::Balance { asset: self.asset(asset).index() as u8 },
            Key::Order { inst, cid } => Key::Order { inst: self.inst(inst).index() as u8, cid: cid % 3 },
            Key::L1 { inst } => Key::L1 { inst: self.inst(inst).index() as u8 },
            Key::Trade { inst } => Key::Trade { inst: self.inst(inst).index() as u8 },
        }
    }
    fn exchange_of(&self, k: Key) -> ExchangeIndex {
        match self.canon(k) {
            Key::Balance { asset } => self.exchange_of_asset(AssetIndex(asset as usize)),
            Key::Order { inst, .. } | Key::L1 { inst } | Key::Trade { inst } => self.exchange_of_inst(InstrumentIndex(inst as usize)),
        }
    }
    fn balance(&self, m: &Msg) -> AssetBalance<AssetIndex> {
        let Key::Balance { asset } = self.canon(m.key) else { unreachable!() };
        let v = bal_value(m.v);
        AssetBalance { asset: AssetIndex(asset as usize), balance: Balance::new(v, v), time_exchange: ts(T0_MS + m.t as i64 * 1000) }
    }
    fn order(&self, m: &Msg) -> Order<ExchangeIndex, InstrumentIndex, OrderState<AssetIndex, InstrumentIndex>> {
        let Key::Order { inst, cid } = self.canon(m.key) else { unreachable!() };
        let inst = InstrumentIndex(inst as usize);
        Order {
            key: OrderKey { exchange: self.exchange_of_inst(inst), instrument: inst, strategy: StrategyId::new("s"), cid: ClientOrderId::new(format!("c{cid}")) },
            side: Side::Buy,
            price: Decimal::from(10),
            quantity: Decimal::from(QTY),
            kind: OrderKind::Limit,
            time_in_force: TimeInForce::GoodUntilCancelled { post_only: false },
            // partially filled: never "nothing left to fill"
            state: OrderState::active(Open { id: OrderId::new(format!("o{cid}")), time_exchange: ts(T0_MS + m.t as i64 * 1000), filled_quantity: Decimal::from(m.v as u32 % QTY) }),
        }
    }
    fn market(&self, m: &Msg) -> MarketEvent<InstrumentIndex, DataKind> {
        let t = ts(T0_MS + m.t as i64 * 1000);
        let (inst, kind) = match self.canon(m.key) {
            Key::L1 { inst } => (
                inst,
                DataKind::OrderBookL1(OrderBookL1 {
                    last_update_time: t,
                    // one message in five has an empty side (the last ask lifted / the last bid hit)
                    best_bid: (m.v % 10 != 0).then(|| Level::new(Decimal::from(m.v), Decimal::ONE)),
                    best_ask: (m.v % 10 != 5).then(|| Level::new(Decimal::from(m.v as u32 + 1), Decimal::TWO)),
                }),
            ),
            Key::Trade { inst } => (inst, DataKind::Trade(PublicTrade { id: format!("p{}", m.v), price: m.v as f64 / 4.0, amount: 1.0, side: Side::Buy })),
            _ => unreachable!(),
        };
        let inst = InstrumentIndex(inst as usize);
        MarketEvent { time_exchange: t, time_received: t, exchange: self.indexed.instruments()[inst.index()].value.exchange.value, instrument: inst, kind }
    }
}

/// (timestamp seconds, value) currently held for a key, read through the public state.
fn held(state: &DefaultState, k: Key) -> Option<(i64, String)> {
    let secs = |t: chrono::DateTime<chrono::Utc>| (t - ts(T0_MS)).num_seconds();
    match k {
        Key::Balance { asset } => state.assets.asset_index(&AssetIndex(asset as usize)).balance.as_ref().map(|b| (secs(b.time), format!("{}/{}", b.value.total, b.value.free))),
        Key::Order { inst, cid } => state.instruments.instrument_index(&InstrumentIndex(inst as usize)).orders.0.get(&ClientOrderId::new(format!("c{cid}"))).and_then(|o| match &o.state {
            ActiveOrderState::Open(open) | ActiveOrderState::CancelInFlight(barter_execution::order::state::CancelInFlight { order: Some(open) }) => Some((secs(open.time_exchange), format!("{}", open.filled_quantity))),
            _ => None,
        }),
        Key::L1 { inst } => {
            let l1 = &state.instruments.instrument_index(&InstrumentIndex(inst as usize)).data.l1;
            (l1.best_bid.is_some() || l1.best_ask.is_some()).then(|| (secs(l1.last_update_time), format!("{:?}/{:?}", l1.best_bid.map(|l| l.price), l1.best_ask.map(|l| l.price))))
        }
        Key::Trade { inst } => state.instruments.instrument_index(&InstrumentIndex(inst as usize)).data.last_traded_price.as_ref().map(|p| (secs(p.time), format!("{}", p.value))),
    }
}

fn value_repr(w: &World, m: &Msg) -> String {
    match w.canon(m.key) {
        Key::Balance { .. } => format!("{}/{}", bal_value(m.v), bal_value(m.v)),
        Key::Order { .. } => format!("{}", Decimal::from(m.v as u32 % QTY)),
        Key::L1 { .. } => format!("{:?}/{:?}", (m.v % 10 != 0).then(|| Decimal::from(m.v)), (m.v % 10 != 5).then(|| Decimal::from(m.v as u32 + 1))),
        Key::Trade { .. } => format!("{}", Decimal::from_f64(m.v as f64 / 4.0).unwrap()),
    }
}

/// balance carried by a message: one in five is exactly zero (an asset fully spent or withdrawn is a
/// legal, newest-so-far value like any other)
fn bal_value(v: u16) -> Decimal {
    if v % 5 == 0 { Decimal::ZERO } else { Decimal::from(v) }
}

pub struct MaxTimestampWins;

fn key() -> impl Strategy<Value = Key> {
    prop_oneof![
        (0u8..2).prop_map(|asset| Key::Balance { asset }),
        (0u8..2, 0u8..2).prop_map(|(inst, cid)| Key::Order { inst, cid }),
        (0u8..3).prop_map(|inst| Key::L1 { inst }),
        (0u8..3).prop_map(|inst| Key::Trade { inst }),
    ]
}

impl Check for MaxTimestampWins {
    type Case = StaleCase;
    const NAME: &'static str = "max_timestamp_wins";

    fn normalise(mut case: StaleCase) -> StaleCase {
        for m in &mut case.msgs {
            m.t = 1 + m.t % 9;
            m.v = 1 + m.v % 1999;
        }
        case
    }


    fn strategy(tier: Tier) -> BoxedStrategy<StaleCase> {
        let (max_m, max_d) = match tier {
            Tier::Quick => (14usize, 40usize),
            Tier::Thorough => (24usize, 90usize),
        };
        (
            prop::collection::vec((key(), 1u8..6, 1u16..2000), 2..max_m),
            prop::collection::vec(
                prop_oneof![
                    12 => any::<u16>().prop_map(Delivery::One),
                    2 => prop::collection::vec(any::<u16>(), 1..5).prop_map(Delivery::Packed),
                    2 => any::<u16>().prop_map(Delivery::CancelRequested),
                    2 => any::<u16>().prop_map(Delivery::Indirect),
                    1 => (any::<bool>(), 0u8..2).prop_map(|(account, ex)| Delivery::Reconnecting { account, ex }),
                ],
                1..max_d,
            ),
        )
            .prop_map(|(msgs, deliveries)| StaleCase { msgs: msgs.into_iter().map(|(key, t, v)| Msg { key, t, v }).collect(), deliveries })
            .boxed()
    }

    fn eval(case: &StaleCase) -> CaseReport {
        let mut rep = CaseReport::new();
        macro_rules! bad {
            ($sig:expr, $($fmt:tt)+) => {{ rep.fail($sig, format!($($fmt)+)); return rep; }};
        }
        if case.msgs.is_empty() {
            return rep;
        }
        let d = defs();
        let indexed = world::index(&d);
        let w = World { indexed: indexed.clone() };
        let mut state = world::engine_state(&indexed, TradingState::Disabled);
        let mut rig = Rig::new(&d, &[Link::Healthy; 4], TradingState::Disabled);
        let pick = |sel: u16| &case.msgs[((sel as usize) * case.msgs.len()) >> 16];

        // delivered so far: key -> timestamp -> values
        let mut delivered: BTreeMap<Key, BTreeMap<i64, Vec<String>>> = BTreeMap::new();
        let all_keys: Vec<Key> = {
            let mut k: Vec<Key> = case.msgs.iter().map(|m| w.canon(m.key)).collect();
            k.sort();
            k.dedup();
            k
        };
        let (mut stale, mut dup, mut equal_ts, mut packed) = (0u32, 0u32, 0u32, 0u32);
        let (mut cancels, mut reconnects, mut stale_after_cancel, mut stale_after_reconnect) = (0u32, 0u32, 0u32, 0u32);
        let mut indirect = 0u32;
        let mut unpriceable = 0u32;

        for (n, del) in case.deliveries.iter().enumerate() {
            // build the engine-level events for this delivery
            let mut batch: Vec<Msg> = Vec::new();
            let mut events: Vec<EngineEvent<DataKind>> = Vec::new();
            match del {
                Delivery::One(sel) => {
                    let m = *pick(*sel);
                    batch.push(m);
                    match w.canon(m.key) {
                        Key::Balance { .. } => events.push(AccountEvent { exchange: w.exchange_of(m.key), kind: AccountEventKind::BalanceSnapshot(Snapshot(w.balance(&m))) }.into()),
                        Key::Order { .. } => events.push(AccountEvent { exchange: w.exchange_of(m.key), kind: AccountEventKind::OrderSnapshot(Snapshot(w.order(&m))) }.into()),
                        _ => events.push(w.market(&m).into()),
                    }
                }
                Delivery::CancelRequested(sel) => {
                    let m = *pick(*sel);
                    if let Key::Order { .. } = w.canon(m.key) {
                        let o = w.order(&m);
                        let request = barter_execution::order::request::OrderRequestCancel { key: o.key.clone(), state: barter_execution::order::request::RequestCancel { id: None } };
                        use barter::engine::state::order::in_flight_recorder::InFlightRequestRecorder;
                        let before: Vec<Option<(i64, String)>> = all_keys.iter().map(|k| held(&state, *k)).collect();
                        state.record_in_flight_cancel(&request);
                        rig.engine.state.record_in_flight_cancel(&request);
                        cancels += 1;
                        for (i, k) in all_keys.iter().enumerate() {
                            let now = held(&state, *k);
                            if now != before[i] {
                                bad!("cancel-request-changed-held-item", "delivery {n} {del:?}: recording a cancel request changed what is held for {k:?}: {:?} -> {now:?}", before[i]);
                            }
                        }
                    }
                    continue;
                }
                Delivery::Indirect(sel) => {
                    let m = *pick(*sel);
                    let k = w.canon(m.key);
                    let event: Option<EngineEvent<DataKind>> = match k {
                        Key::L1 { inst } => {
                            let t = ts(T0_MS + m.t as i64 * 1000);
                            let inst = InstrumentIndex(inst as usize);
                            let book = barter_data::books::OrderBook::new(m.v as u64, Some(t), vec![Level::new(Decimal::from(m.v), Decimal::ONE)], vec![Level::new(Decimal::from(m.v as u32 + 1), Decimal::TWO)]);
                            Some(MarketEvent { time_exchange: t, time_received: t, exchange: w.indexed.instruments()[inst.index()].value.exchange.value, instrument: inst, kind: DataKind::OrderBook(barter_data::subscription::book::OrderBookEvent::Snapshot(book)) }.into())
                        }
                        Key::Order { .. } => {
                            let mut o = w.order(&m);
                            if let OrderState::Active(ActiveOrderState::Open(open)) = o.state.clone() {
                                o.state = OrderState::active(barter_execution::order::state::CancelInFlight { order: Some(open) });
                            }
                            Some(AccountEvent { exchange: w.exchange_of(m.key), kind: AccountEventKind::OrderSnapshot(Snapshot(o)) }.into())
                        }
                        // a print whose price cannot be held (not a number / beyond the decimal range)
                        Key::Trade { .. } => {
                            let mut me = w.market(&m);
                            if let DataKind::Trade(trade) = &mut me.kind {
                                trade.price = [f64::NAN, f64::INFINITY, 1e30, -1e30][m.v as usize % 4];
                            }
                            unpriceable += 1;
                            Some(me.into())
                        }
                        _ => None,
                    };
                    let Some(event) = event else { continue };
                    let before: Vec<Option<(i64, String)>> = all_keys.iter().map(|k| held(&state, *k)).collect();
                    match &event {
                        EngineEvent::Account(barter::execution::AccountStreamEvent::Item(a)) => {
                            let _ = state.update_from_account(a);
                        }
                        EngineEvent::Market(barter_data::streams::consumer::MarketStreamEvent::Item(me)) => state.update_from_market(me),
                        _ => unreachable!(),
                    }
                    let _ = rig.engine.process(event);
                    indirect += 1;
                    for (i, key) in all_keys.iter().enumerate() {
                        let now = held(&state, *key);
                        if now == before[i] {
                            continue;
                        }
                        if *key != k {
                            bad!("unaddressed-key-changed", "delivery {n} {del:?} changed {key:?}: {:?} -> {now:?}", before[i]);
                        }
                        // taken as news: then it is this message's content, and not older than what was held
                        let (t_new, v_new) = now.clone().unwrap_or((i64::MIN, String::new()));
                        let t_old = before[i].as_ref().map(|b| b.0).unwrap_or(i64::MIN);
                        if now.is_none() || t_new < t_old || t_new != m.t as i64 {
                            bad!("rolled-back-by-indirect-message", "delivery {n} {del:?} (content {m:?}): {key:?} went from {:?} to {now:?}", before[i]);
                        }
                        delivered.entry(*key).or_default().entry(t_new).or_default().push(v_new);
                    }
                    continue;
                }
                Delivery::Reconnecting { account, ex } => {
                    let id = indexed.exchanges()[*ex as usize % indexed.exchanges().len()].value;
                    let before: Vec<Option<(i64, String)>> = all_keys.iter().map(|k| held(&state, *k)).collect();
                    if *account {
                        state.connectivity.update_from_account_reconnecting(&id);
                        let _ = rig.engine.process(EngineEvent::Account(barter::execution::AccountStreamEvent::Reconnecting(id)));
                    } else {
                        state.connectivity.update_from_market_reconnecting(&id);
                        let _ = rig.engine.process(EngineEvent::Market(barter_data::streams::consumer::MarketStreamEvent::Reconnecting(id)));
                    }
                    reconnects += 1;
                    for (i, k) in all_keys.iter().enumerate() {
                        let now = held(&state, *k);
                        if now != before[i] {
                            bad!("reconnect-notice-changed-held-item", "delivery {n} {del:?}: a reconnect notice changed what is held for {k:?}: {:?} -> {now:?}", before[i]);
                        }
                    }
                    continue;
                }
                Delivery::Packed(sels) => {
                    // account items of the first item's exchange are packed; the rest go singly
                    let items: Vec<Msg> = sels.iter().map(|s| *pick(*s)).filter(|m| matches!(m.key, Key::Balance { .. } | Key::Order { .. })).collect();
                    let Some(first) = items.first() else { continue };
                    let ex = w.exchange_of(first.key);
                    let mine: Vec<Msg> = items.iter().copied().filter(|m| w.exchange_of(m.key) == ex).collect();
                    packed += 1;
                    let balances = mine.iter().filter(|m| matches!(m.key, Key::Balance { .. })).map(|m| w.balance(m)).collect();
                    let mut instruments: Vec<InstrumentAccountSnapshot> = Vec::new();
                    let mut grouped: Vec<Vec<Msg>> = Vec::new();
                    for m in mine.iter().filter(|m| matches!(m.key, Key::Order { .. })) {
                        let o = w.order(m);
                        match instruments.iter().position(|s| s.instrument == o.key.instrument) {
                            Some(i) => {
                                instruments[i].orders.push(o);
                                grouped[i].push(*m);
                            }
                            None => {
                                instruments.push(InstrumentAccountSnapshot { instrument: o.key.instrument, orders: vec![o] });
                                grouped.push(vec![*m]);
                            }
                        }
                    }
                    // within a snapshot balances are applied first, then orders per instrument in list order
                    batch.extend(mine.iter().copied().filter(|m| matches!(m.key, Key::Balance { .. })));
                    batch.extend(grouped.into_iter().flatten());
                    events.push(AccountEvent { exchange: ex, kind: AccountEventKind::Snapshot(AccountSnapshot { exchange: ex, balances, instruments }) }.into());
                }
            }
            let before: Vec<Option<(i64, String)>> = all_keys.iter().map(|k| held(&state, *k)).collect();
            for ev in events {
                match &ev {
                    EngineEvent::Account(barter::execution::AccountStreamEvent::Item(a)) => {
                        let _ = state.update_from_account(a);
                    }
                    EngineEvent::Market(barter_data::streams::consumer::MarketStreamEvent::Item(m)) => state.update_from_market(m),
                    _ => unreachable!(),
                }
                let _ = rig.engine.process(ev);
            }
            // bookkeeping of what has been delivered
            let mut touched: Vec<Key> = Vec::new();
            for m in &batch {
                let k = w.canon(m.key);
                touched.push(k);
                let by_t = delivered.entry(k).or_default();
                let max_before = by_t.keys().next_back().copied();
                let t = m.t as i64;
                let v = value_repr(&w, m);
                if max_before.is_some_and(|mb| t < mb) {
                    stale += 1;
                    if cancels > 0 && matches!(k, Key::Order { .. }) {
                        stale_after_cancel += 1;
                    }
                    if reconnects > 0 {
                        stale_after_reconnect += 1;
                    }
                }
                if by_t.get(&t).is_some_and(|vs| vs.contains(&v)) {
                    dup += 1;
                } else if by_t.contains_key(&t) {
                    equal_ts += 1;
                }
                by_t.entry(t).or_default().push(v);
            }
            // oracle
            for (i, k) in all_keys.iter().enumerate() {
                let now = held(&state, *k);
                if !touched.contains(k) {
                    if now != before[i] {
                        bad!("unaddressed-key-changed", "delivery {n} {del:?} changed {k:?}: {:?} -> {now:?}", before[i]);
                    }
                    continue;
                }
                let by_t = &delivered[k];
                let (max_t, values) = by_t.iter().next_back().map(|(t, v)| (*t, v.clone())).unwrap();
                match &now {
                    None => bad!("item-missing", "after delivery {n} {del:?}: nothing held for {k:?} although messages were delivered: {by_t:?}"),
                    Some((t, v)) => {
                        if *t != max_t {
                            bad!("older-timestamp-held", "after delivery {n} {del:?}: {k:?} holds timestamp {t} but {max_t} was already delivered (history {by_t:?})");
                        }
                        if !values.contains(v) {
                            bad!("value-not-delivered-with-timestamp", "after delivery {n} {del:?}: {k:?} holds value {v} at timestamp {t}, values delivered with that timestamp: {values:?}");
                        }
                    }
                }
            }
            // the engine path holds the same items
            for k in &all_keys {
                let (a, b) = (held(&state, *k), held(&rig.engine.state, *k));
                let same_ts = a.as_ref().map(|x| x.0) == b.as_ref().map(|x| x.0);
                if !same_ts {
                    bad!("engine-path-differs", "after delivery {n}: Engine::process holds {b:?} for {k:?}, EngineState holds {a:?}");
                }
            }
        }
        rep.class_if(case.msgs.iter().any(|m| matches!(m.key, Key::Balance { .. }) && m.v % 5 == 0), "zero_balance_message");
        rep.class_if(stale > 0, "stale_delivery");
        rep.class_if(dup > 0, "duplicate_delivery");
        rep.class_if(equal_ts > 0, "equal_timestamp_different_value");
        rep.class_if(packed > 0, "packed_account_snapshot");
        rep.class_if(stale_after_cancel > 0, "stale_order_report_after_cancel_request");
        rep.class_if(indirect > 0, "content_arrives_as_l2_snapshot_or_cancel_in_flight_report");
        rep.class_if(unpriceable > 0, "trade_print_with_a_price_that_cannot_be_held");
        rep.class_if(stale_after_reconnect > 0, "stale_delivery_after_reconnect_notice");
        rep.nontrivial = stale > 0 && dup > 0 && equal_ts > 0;
        rep
    }
}

pub fn run(ctx: &mut Ctx) {
    ctx.rule = "max_timestamp_wins: 1..14|24 timestamped messages over keys {2 assets' balances (one value in five exactly zero), 2x2 orders' partially filled open reports, 3 instruments' L1 books, 3 instruments' public trades} with timestamps from a 5-value range (equal timestamps common), delivered 1..40|90 times as a generated selection with repetition, ~12% packed into full account snapshots, interleaved with cancel requests recorded for tracked orders (12%) account / market reconnect notices (6%) and messages that carry an item's content indirectly (12%: a full L2 snapshot topped by an L1 message, an order report in the cancel-in-flight state wrapping an open report — these may be taken as news or not, but never roll the item back), through EngineState::update_from_* and Engine::process on a 2-exchange / 3-instrument state. non-trivial = >= 1 stale delivery AND >= 1 exact duplicate AND >= 1 equal-timestamp pair with different values; distinct by hash of the case.".into();
    ctx.assumptions = vec![
        "OrderBookL1.last_update_time == event.time_exchange as every connector sets it; timestamps after 1970".into(),
        "messages with equal timestamps and different values: either delivered value may be held".into(),
        "open reports are partially filled (an 'open' report with nothing left to fill ends tracking, see C01)".into(),
    ];
    ctx.run_regressions::<MaxTimestampWins>();
    ctx.run::<MaxTimestampWins>(ctx.tier.pick(100_000, 1_500_000));
}

pub fn replay(ctx: &mut Ctx, doc: &Value) -> bool {
    ctx.replay::<MaxTimestampWins>(doc)
}
