//! Engine test kit: deterministic clock, scripted strategy / risk manager, execution links with
//! fault patterns, and a serialisable event vocabulary that maps onto `EngineEvent`.

use crate::props::gens::{ts, T0_MS};
use crate::props::world::{self, DefaultState, InstrumentDef};
use barter::engine::state::order::manager::OrderManager;
use barter::{
    EngineEvent,
    engine::{
        Engine, Processor,
        clock::{EngineClock, TimeExchange},
        command::Command,
        execution_tx::MultiExchangeTxMap,
        state::{
            instrument::filter::InstrumentFilter,
            trading::TradingState,
        },
    },
    execution::{AccountStreamEvent, request::ExecutionRequest},
    risk::{RiskApproved, RiskManager, RiskRefused},
    strategy::{
        algo::AlgoStrategy,
        close_positions::{ClosePositionsStrategy, close_open_positions_with_market_orders},
        on_disconnect::OnDisconnectStrategy,
        on_trading_disabled::OnTradingDisabled,
    },
};
use barter_data::{
    books::Level,
    event::{DataKind, MarketEvent},
    streams::consumer::MarketStreamEvent,
    subscription::{book::OrderBookL1, trade::PublicTrade},
};
use barter_execution::{
    AccountEvent, AccountEventKind,
    balance::{AssetBalance, Balance},
    error::{ApiError, ConnectivityError, OrderError},
    order::{
        Order, OrderKey, OrderKind, TimeInForce,
        id::{ClientOrderId, OrderId, StrategyId},
        request::{OrderRequestCancel, OrderRequestOpen, OrderResponseCancel, RequestCancel, RequestOpen},
        state::{Cancelled, Open, OrderState},
    },
    trade::{AssetFees, Trade, TradeId},
};
use barter_instrument::{
    Side, Underlying,
    asset::AssetIndex,
    exchange::{ExchangeId, ExchangeIndex},
    index::IndexedInstruments,
    instrument::InstrumentIndex,
};
use barter_integration::{
    channel::{UnboundedRx, UnboundedTx, mpsc_unbounded},
    collection::one_or_many::OneOrMany,
    snapshot::Snapshot,
};
use chrono::{DateTime, Utc};
use rust_decimal::Decimal;
use serde::{Deserialize, Serialize};
use std::{
    collections::VecDeque,
    sync::{Arc, Mutex},
};

// ---------------------------------------------------------------------------------------------
// Clock
// ---------------------------------------------------------------------------------------------

/// Deterministic engine clock: time of the latest event that carried an exchange timestamp.
#[derive(Debug, Clone)]
pub struct TestClock(pub DateTime<Utc>);

impl EngineClock for TestClock {
    fn time(&self) -> DateTime<Utc> {
        self.0
    }
}

impl<E: TimeExchange> Processor<&E> for TestClock {
    type Audit = ();
    fn process(&mut self, event: &E) {
        if let Some(t) = event.time_exchange() {
            if t > self.0 {
                self.0 = t;
            }
        }
    }
}

// ---------------------------------------------------------------------------------------------
// Strategy / risk
// ---------------------------------------------------------------------------------------------

pub const STRATEGY: &str = "script";

#[derive(Debug, Default)]
pub struct StrategyLog {
    /// scripted outputs still to be returned, one entry per `generate_algo_orders` call
    pub script: VecDeque<(Vec<OrderRequestCancel>, Vec<OrderRequestOpen>)>,
    pub algo_calls: u64,
    pub disconnect_calls: Vec<ExchangeId>,
    pub trading_disabled_calls: u64,
    pub close_cid_counter: u64,
    /// behaviour switch: the on-disconnect hook stops algorithmic trading (a common reaction)
    pub disable_on_disconnect: bool,
    /// behaviour switch: a close-positions command also cancels the resting orders of the
    /// instruments in scope ("flatten")
    pub close_also_cancels: bool,
}

#[derive(Debug, Clone)]
pub struct ScriptStrategy {
    pub id: StrategyId,
    pub log: Arc<Mutex<StrategyLog>>,
}

impl ScriptStrategy {
    pub fn new() -> Self {
        Self { id: StrategyId::new(STRATEGY), log: Arc::new(Mutex::new(StrategyLog::default())) }
    }
    pub fn push_script(&self, cancels: Vec<OrderRequestCancel>, opens: Vec<OrderRequestOpen>) {
        self.log.lock().unwrap().script.push_back((cancels, opens));
    }
}

impl Default for ScriptStrategy {
    fn default() -> Self {
        Self::new()
    }
}

impl AlgoStrategy for ScriptStrategy {
    type State = DefaultState;
    fn generate_algo_orders(
        &self,
        _: &Self::State,
    ) -> (impl IntoIterator<Item = OrderRequestCancel>, impl IntoIterator<Item = OrderRequestOpen>) {
        let mut log = self.log.lock().unwrap();
        log.algo_calls += 1;
        log.script.pop_front().unwrap_or_default()
    }
}

impl ClosePositionsStrategy for ScriptStrategy {
    type State = DefaultState;
    fn close_positions_requests<'a>(
        &'a self,
        state: &'a Self::State,
        filter: &'a InstrumentFilter,
    ) -> (
        impl IntoIterator<Item = OrderRequestCancel<ExchangeIndex, InstrumentIndex>> + 'a,
        impl IntoIterator<Item = OrderRequestOpen<ExchangeIndex, InstrumentIndex>> + 'a,
    )
    where
        ExchangeIndex: 'a,
        AssetIndex: 'a,
        InstrumentIndex: 'a,
    {
        let log: &'a Mutex<StrategyLog> = &self.log;
        let (cancels, opens) = close_open_positions_with_market_orders(&self.id, state, filter, move |st| {
            let mut l = log.lock().unwrap();
            l.close_cid_counter += 1;
            ClientOrderId::new(format!("close-{}-{}", st.key.index(), l.close_cid_counter))
        });
        let mut cancels: Vec<OrderRequestCancel<ExchangeIndex, InstrumentIndex>> = cancels.into_iter().collect();
        if self.log.lock().unwrap().close_also_cancels {
            cancels.extend(state.instruments.orders(filter).flat_map(|orders| orders.orders()).filter_map(|order| order.to_request_cancel()));
        }
        (cancels, opens)
    }
}

impl<Clock, Txs, Risk> OnDisconnectStrategy<Clock, DefaultState, Txs, Risk> for ScriptStrategy {
    type OnDisconnect = ExchangeId;
    fn on_disconnect(engine: &mut Engine<Clock, DefaultState, Txs, Self, Risk>, exchange: ExchangeId) -> ExchangeId {
        let stop = {
            let mut log = engine.strategy.log.lock().unwrap();
            log.disconnect_calls.push(exchange);
            log.disable_on_disconnect
        };
        if stop {
            engine.state.trading = TradingState::Disabled;
        }
        exchange
    }
}

impl<Clock, State, Txs, Risk> OnTradingDisabled<Clock, State, Txs, Risk> for ScriptStrategy {
    type OnTradingDisabled = u64;
    fn on_trading_disabled(engine: &mut Engine<Clock, State, Txs, Self, Risk>) -> u64 {
        let mut l = engine.strategy.log.lock().unwrap();
        l.trading_disabled_calls += 1;
        l.trading_disabled_calls
    }
}

/// Risk manager refusing every request whose client order id starts with `refuse`.
#[derive(Debug, Clone, Default)]
pub struct ScriptRisk;

pub fn is_refused(cid: &ClientOrderId) -> bool {
    cid.0.starts_with("refuse")
}

impl RiskManager for ScriptRisk {
    type State = DefaultState;
    fn check(
        &self,
        _: &Self::State,
        cancels: impl IntoIterator<Item = OrderRequestCancel>,
        opens: impl IntoIterator<Item = OrderRequestOpen>,
    ) -> (
        impl IntoIterator<Item = RiskApproved<OrderRequestCancel>>,
        impl IntoIterator<Item = RiskApproved<OrderRequestOpen>>,
        impl IntoIterator<Item = RiskRefused<OrderRequestCancel>>,
        impl IntoIterator<Item = RiskRefused<OrderRequestOpen>>,
    ) {
        let (c_ref, c_ok): (Vec<_>, Vec<_>) = cancels.into_iter().partition(|r| is_refused(&r.key.cid));
        let (o_ref, o_ok): (Vec<_>, Vec<_>) = opens.into_iter().partition(|r| is_refused(&r.key.cid));
        (
            c_ok.into_iter().map(RiskApproved::new),
            o_ok.into_iter().map(RiskApproved::new),
            c_ref.into_iter().map(|r| RiskRefused::new(r, "scripted refusal")),
            o_ref.into_iter().map(|r| RiskRefused::new(r, "scripted refusal")),
        )
    }
}

// ---------------------------------------------------------------------------------------------
// Engine + links
// ---------------------------------------------------------------------------------------------

#[derive(Debug, Clone, Copy, PartialEq, Eq, Serialize, Deserialize)]
pub enum Link {
    Healthy,
    /// transmitter present, receiver dropped
    Closed,
    /// no transmitter for this exchange
    Missing,
}

pub type TestEngine = Engine<TestClock, DefaultState, MultiExchangeTxMap<UnboundedTx<ExecutionRequest>>, ScriptStrategy, ScriptRisk>;

pub struct Rig {
    pub engine: TestEngine,
    pub indexed: IndexedInstruments,
    /// receiver per exchange index (None when the link is Closed or Missing)
    pub receivers: Vec<Option<UnboundedRx<ExecutionRequest>>>,
    pub links: Vec<Link>,
}

impl Rig {
    pub fn new(defs: &[InstrumentDef], links: &[Link], trading: TradingState) -> Self {
        let indexed = world::index(defs);
        let state = world::engine_state(&indexed, trading);
        Self::with_state(indexed, state, links)
    }

    pub fn with_state(indexed: IndexedInstruments, state: DefaultState, links: &[Link]) -> Self {
        let mut receivers = Vec::new();
        let mut used = Vec::new();
        let txs: MultiExchangeTxMap<UnboundedTx<ExecutionRequest>> = indexed
            .exchanges()
            .iter()
            .enumerate()
            .map(|(i, e)| {
                let link = links.get(i).copied().unwrap_or(Link::Healthy);
                used.push(link);
                match link {
                    Link::Healthy => {
                        let (tx, rx) = mpsc_unbounded();
                        receivers.push(Some(rx));
                        (e.value, Some(tx))
                    }
                    Link::Closed => {
                        let (tx, rx) = mpsc_unbounded::<ExecutionRequest>();
                        drop(rx);
                        receivers.push(None);
                        (e.value, Some(tx))
                    }
                    Link::Missing => {
                        receivers.push(None);
                        (e.value, None)
                    }
                }
            })
            .collect();
        let engine = Engine::new(TestClock(ts(T0_MS)), state, txs, ScriptStrategy::new(), ScriptRisk);
        Self { engine, indexed, receivers, links: used }
    }

    /// Drain everything received on every link since the last call: (exchange index, request).
    pub fn drain(&mut self) -> Vec<(usize, ExecutionRequest)> {
        let mut out = Vec::new();
        for (i, rx) in self.receivers.iter_mut().enumerate() {
            if let Some(rx) = rx {
                while let Ok(req) = rx.rx.try_recv() {
                    out.push((i, req));
                }
            }
        }
        out
    }

    pub fn n_exchanges(&self) -> usize {
        self.indexed.exchanges().len()
    }
    pub fn n_instruments(&self) -> usize {
        self.indexed.instruments().len()
    }
    pub fn n_assets(&self) -> usize {
        self.indexed.assets().len()
    }
    pub fn exchange_of(&self, inst: usize) -> ExchangeIndex {
        self.indexed.instruments()[inst].value.exchange.key
    }
    pub fn exchange_id(&self, ex: usize) -> ExchangeId {
        self.indexed.exchanges()[ex].value
    }
}

// ---------------------------------------------------------------------------------------------
// Serialisable event vocabulary
// ---------------------------------------------------------------------------------------------

#[derive(Debug, Clone, PartialEq, Eq, Serialize, Deserialize)]
pub struct ReqSpec {
    /// instrument selector (mod number of instruments)
    pub inst: u8,
    /// client order id number
    pub cid: u16,
    /// risk manager refuses it (only meaningful for strategy-generated requests)
    pub refuse: bool,
    /// address the request to an exchange index beyond the execution-link table
    pub unknown_exchange: bool,
    pub buy: bool,
}

#[derive(Debug, Clone, PartialEq, Eq, Serialize, Deserialize)]
pub enum FilterSpec {
    None,
    Exchanges(Vec<u8>),
    Instruments(Vec<u8>),
    /// underlyings taken from these instruments
    Underlyings(Vec<u8>),
}

#[derive(Debug, Clone, PartialEq, Eq, Serialize, Deserialize)]
pub enum InactiveKind {
    FullyFilled,
    Cancelled,
    Expired,
    OpenFailed,
    /// the execution manager's own "no answer within the request timeout" report
    OpenTimedOut,
}

#[derive(Debug, Clone, PartialEq, Eq, Serialize, Deserialize)]
pub enum EvSpec {
    MarketTrade { inst: u8, price_q: u32, dt: i32 },
    MarketL1 { inst: u8, bid_q: Option<(u32, u16)>, ask_q: Option<(u32, u16)>, dt: i32 },
    MarketReconnecting { ex: u8 },
    AccountReconnecting { ex: u8 },
    Balance { asset: u8, total: u32, dt: i32 },
    OrderOpen { cid: u16, inst: u8, buy: bool, filled: u8, dt: i32 },
    OrderInactive { cid: u16, inst: u8, buy: bool, kind: InactiveKind, dt: i32 },
    CancelResp { cid: u16, inst: u8, ok: bool, dt: i32 },
    Fill { inst: u8, buy: bool, price_q: u32, qty: u16, fee_bp: u16, dt: i32 },
    TradingState { enabled: bool },
    CmdCancelOrders(FilterSpec),
    CmdClosePositions(FilterSpec),
    CmdSendOpen(Vec<ReqSpec>),
    CmdSendCancel(Vec<ReqSpec>),
    Shutdown,
    /// a full account snapshot of one exchange (what an execution link sends when it (re)initialises):
    /// balances of some of the exchange's assets, the open orders (cid selector, instrument, filled)
    /// of the exchange listed per instrument, and `bare` instruments listed without any order
    AccountSnapshot { ex: u8, balances: Vec<(u8, u32)>, orders: Vec<(u16, u8, u8)>, bare: Vec<u8>, dt: i32 },
}

/// Order quantity used by every generated order request / report.
pub const ORDER_QTY: u32 = 4;

/// Side of every request / report about order `cid` (static order data is a function of the id).
pub fn side_of_cid(cid: u16) -> Side {
    if cid % 2 == 0 { Side::Buy } else { Side::Sell }
}

pub fn cid_name(cid: u16, refuse: bool) -> ClientOrderId {
    if refuse { ClientOrderId::new(format!("refuse-{cid}")) } else { ClientOrderId::new(format!("cid-{cid}")) }
}

pub struct Resolver<'a> {
    pub indexed: &'a IndexedInstruments,
    /// running virtual exchange time in ms
    pub now_ms: i64,
    pub trade_seq: u64,
    /// open requests resolved so far: (client order id number, instrument). Every open request
    /// gets a fresh client order id (ids are unique per open request); reports and cancels whose
    /// `cid` selector is >= POOL_CIDS refer to one of these engine-originated orders.
    pub issued: Vec<(u16, InstrumentIndex)>,
}

/// Client order ids 0..POOL_CIDS belong to orders the engine only knows from exchange reports.
pub const POOL_CIDS: u16 = 6;

impl<'a> Resolver<'a> {
    pub fn new(indexed: &'a IndexedInstruments) -> Self {
        Self { indexed, now_ms: T0_MS + 1_000, trade_seq: 0, issued: Vec::new() }
    }
    fn n_inst(&self) -> usize {
        self.indexed.instruments().len()
    }
    pub fn inst(&self, sel: u8) -> InstrumentIndex {
        InstrumentIndex(sel as usize % self.n_inst())
    }
    pub fn exchange_of(&self, inst: InstrumentIndex) -> ExchangeIndex {
        self.indexed.instruments()[inst.index()].value.exchange.key
    }
    pub fn exchange_id_of(&self, inst: InstrumentIndex) -> ExchangeId {
        self.indexed.instruments()[inst.index()].value.exchange.value
    }
    /// event time: `dt >= 0` advances the running time, `dt < 0` produces a stale timestamp
    fn time(&mut self, dt: i32) -> DateTime<Utc> {
        if dt >= 0 {
            self.now_ms += dt as i64 + 1;
            ts(self.now_ms)
        } else {
            ts((self.now_ms + dt as i64).max(T0_MS))
        }
    }

    /// (client order id number, instrument) a report / cancel with selector `cid` refers to
    pub fn target(&self, cid: u16, inst_sel: u8) -> (u16, InstrumentIndex) {
        if cid >= POOL_CIDS && !self.issued.is_empty() {
            self.issued[(cid - POOL_CIDS) as usize % self.issued.len()]
        } else {
            (cid % POOL_CIDS, self.inst(inst_sel))
        }
    }

    fn key(&self, r: &ReqSpec, cidnum: u16, inst: InstrumentIndex) -> OrderKey {
        let exchange = if r.unknown_exchange { ExchangeIndex(self.indexed.exchanges().len() + 1) } else { self.exchange_of(inst) };
        OrderKey { exchange, instrument: inst, strategy: StrategyId::new(STRATEGY), cid: cid_name(cidnum, r.refuse) }
    }

    /// Every open request gets a fresh client order id.
    pub fn open_request(&mut self, r: &ReqSpec) -> OrderRequestOpen {
        let inst = self.inst(r.inst);
        let cidnum = 100 + self.issued.len() as u16;
        self.issued.push((cidnum, inst));
        OrderRequestOpen {
            key: self.key(r, cidnum, inst),
            state: RequestOpen {
                side: side_of_cid(cidnum),
                price: Decimal::from(100),
                quantity: Decimal::from(ORDER_QTY),
                kind: OrderKind::Limit,
                time_in_force: TimeInForce::GoodUntilCancelled { post_only: false },
            },
        }
    }

    pub fn cancel_request(&self, r: &ReqSpec) -> OrderRequestCancel {
        let (cidnum, inst) = self.target(r.cid, r.inst);
        OrderRequestCancel { key: self.key(r, cidnum, inst), state: RequestCancel { id: None } }
    }

    pub fn filter(&self, f: &FilterSpec) -> InstrumentFilter {
        match f {
            FilterSpec::None => InstrumentFilter::None,
            // built through the public constructors; an empty selection selects nothing
            FilterSpec::Exchanges(v) => InstrumentFilter::exchanges(v.iter().map(|e| ExchangeIndex(*e as usize % (self.indexed.exchanges().len() + 1)))),
            FilterSpec::Instruments(v) => InstrumentFilter::instruments(v.iter().map(|i| InstrumentIndex(*i as usize % (self.n_inst() + 1)))),
            FilterSpec::Underlyings(v) => InstrumentFilter::underlyings(v.iter().map(|i| {
                let u = &self.indexed.instruments()[*i as usize % self.n_inst()].value.underlying;
                Underlying { base: u.base, quote: u.quote }
            })),
        }
    }

    fn order_key(&self, cid: u16, inst: InstrumentIndex) -> OrderKey {
        OrderKey { exchange: self.exchange_of(inst), instrument: inst, strategy: StrategyId::new(STRATEGY), cid: cid_name(cid, false) }
    }

    fn order<S>(&self, cid: u16, inst: InstrumentIndex, _buy: bool, state: S) -> Order<ExchangeIndex, InstrumentIndex, S> {
        Order {
            key: self.order_key(cid, inst),
            side: side_of_cid(cid),
            price: Decimal::from(100),
            quantity: Decimal::from(ORDER_QTY),
            kind: OrderKind::Limit,
            time_in_force: TimeInForce::GoodUntilCancelled { post_only: false },
            state,
        }
    }

    pub fn resolve(&mut self, ev: &EvSpec) -> EngineEvent<DataKind> {
        match ev {
            EvSpec::MarketTrade { inst, price_q, dt } => {
                let inst = self.inst(*inst);
                let t = self.time(*dt);
                EngineEvent::Market(MarketStreamEvent::Item(MarketEvent {
                    time_exchange: t,
                    time_received: t,
                    exchange: self.exchange_id_of(inst),
                    instrument: inst,
                    // price_q == 0: a public trade at price zero (legal for spreads / some futures)
                    kind: DataKind::Trade(PublicTrade { id: format!("pt-{}", self.now_ms), price: *price_q as f64 / 4.0, amount: 1.0, side: Side::Buy }),
                }))
            }
            EvSpec::MarketL1 { inst, bid_q, ask_q, dt } => {
                let inst = self.inst(*inst);
                let t = self.time(*dt);
                let lvl = |x: &Option<(u32, u16)>| x.map(|(p, a)| Level::new(Decimal::new(p.max(1) as i64 * 25, 2), Decimal::from(a.max(1))));
                EngineEvent::Market(MarketStreamEvent::Item(MarketEvent {
                    time_exchange: t,
                    time_received: t,
                    exchange: self.exchange_id_of(inst),
                    instrument: inst,
                    kind: DataKind::OrderBookL1(OrderBookL1 { last_update_time: t, best_bid: lvl(bid_q), best_ask: lvl(ask_q) }),
                }))
            }
            EvSpec::MarketReconnecting { ex } => {
                let id = self.indexed.exchanges()[*ex as usize % self.indexed.exchanges().len()].value;
                EngineEvent::Market(MarketStreamEvent::Reconnecting(id))
            }
            EvSpec::AccountReconnecting { ex } => {
                let id = self.indexed.exchanges()[*ex as usize % self.indexed.exchanges().len()].value;
                EngineEvent::Account(AccountStreamEvent::Reconnecting(id))
            }
            EvSpec::Balance { asset, total, dt } => {
                let idx = *asset as usize % self.indexed.assets().len();
                let a = &self.indexed.assets()[idx];
                let ex = self.indexed.find_exchange_index(a.value.exchange).expect("exchange of asset");
                let t = self.time(*dt);
                let v = Decimal::from(*total);
                EngineEvent::Account(AccountStreamEvent::Item(AccountEvent {
                    exchange: ex,
                    kind: AccountEventKind::BalanceSnapshot(Snapshot(AssetBalance { asset: AssetIndex(idx), balance: Balance::new(v, v), time_exchange: t })),
                }))
            }
            EvSpec::AccountSnapshot { ex, balances, orders, bare, dt } => {
                let ex_i = ExchangeIndex(*ex as usize % self.indexed.exchanges().len());
                let ex_id = self.indexed.exchanges()[ex_i.index()].value;
                let t = self.time(*dt);
                let own_assets: Vec<usize> = (0..self.indexed.assets().len()).filter(|i| self.indexed.assets()[*i].value.exchange == ex_id).collect();
                let mut bals: Vec<AssetBalance<AssetIndex>> = Vec::new();
                for (a, total) in balances {
                    if own_assets.is_empty() {
                        break;
                    }
                    let idx = AssetIndex(own_assets[*a as usize % own_assets.len()]);
                    if !bals.iter().any(|b| b.asset == idx) {
                        let v = Decimal::from(*total);
                        bals.push(AssetBalance { asset: idx, balance: Balance::new(v, v), time_exchange: t });
                    }
                }
                let mut instruments: Vec<barter_execution::InstrumentAccountSnapshot<ExchangeIndex, AssetIndex, InstrumentIndex>> = Vec::new();
                for b in bare {
                    let inst = self.inst(*b);
                    if self.exchange_of(inst) == ex_i && !instruments.iter().any(|s| s.instrument == inst) {
                        instruments.push(barter_execution::InstrumentAccountSnapshot { instrument: inst, orders: vec![] });
                    }
                }
                for (cid, inst, filled) in orders {
                    let (cidnum, inst) = self.target(*cid, *inst);
                    if self.exchange_of(inst) != ex_i {
                        continue;
                    }
                    let open = Open { id: OrderId::new(format!("oid-{cidnum}")), time_exchange: t, filled_quantity: Decimal::from((*filled as u32).min(ORDER_QTY - 1)) };
                    let order: Order<ExchangeIndex, InstrumentIndex, OrderState<AssetIndex, InstrumentIndex>> = self.order(cidnum, inst, true, OrderState::active(open));
                    match instruments.iter_mut().find(|s| s.instrument == inst) {
                        Some(s) if s.orders.iter().any(|o| o.key.cid == order.key.cid) => {}
                        Some(s) => s.orders.push(order),
                        None => instruments.push(barter_execution::InstrumentAccountSnapshot { instrument: inst, orders: vec![order] }),
                    }
                }
                EngineEvent::Account(AccountStreamEvent::Item(AccountEvent { exchange: ex_i, kind: AccountEventKind::Snapshot(barter_execution::AccountSnapshot { exchange: ex_i, balances: bals, instruments }) }))
            }
            EvSpec::OrderOpen { cid, inst, buy, filled, dt } => {
                let (cidnum, inst) = self.target(*cid, *inst);
                let cid = &cidnum;
                let t = self.time(*dt);
                let open = Open { id: OrderId::new(format!("oid-{cid}")), time_exchange: t, filled_quantity: Decimal::from((*filled as u32).min(ORDER_QTY)) };
                let order: Order<ExchangeIndex, InstrumentIndex, OrderState<AssetIndex, InstrumentIndex>> = self.order(*cid, inst, *buy, OrderState::active(open));
                EngineEvent::Account(AccountStreamEvent::Item(AccountEvent { exchange: self.exchange_of(inst), kind: AccountEventKind::OrderSnapshot(Snapshot(order)) }))
            }
            EvSpec::OrderInactive { cid, inst, buy, kind, dt } => {
                let (cidnum, inst) = self.target(*cid, *inst);
                let cid = &cidnum;
                let t = self.time(*dt);
                let state: OrderState<AssetIndex, InstrumentIndex> = match kind {
                    InactiveKind::FullyFilled => OrderState::fully_filled(),
                    InactiveKind::Expired => OrderState::expired(),
                    InactiveKind::Cancelled => OrderState::inactive(Cancelled { id: OrderId::new(format!("oid-{cid}")), time_exchange: t }),
                    InactiveKind::OpenFailed => OrderState::inactive(OrderError::Rejected(ApiError::OrderRejected("rejected".into()))),
                    InactiveKind::OpenTimedOut => OrderState::inactive(OrderError::Connectivity(ConnectivityError::Timeout)),
                };
                let order = self.order(*cid, inst, *buy, state);
                EngineEvent::Account(AccountStreamEvent::Item(AccountEvent { exchange: self.exchange_of(inst), kind: AccountEventKind::OrderSnapshot(Snapshot(order)) }))
            }
            EvSpec::CancelResp { cid, inst, ok, dt } => {
                let (cidnum, inst) = self.target(*cid, *inst);
                let cid = &cidnum;
                let t = self.time(*dt);
                let resp: OrderResponseCancel = OrderResponseCancel {
                    key: self.order_key(*cid, inst),
                    state: if *ok {
                        Ok(Cancelled { id: OrderId::new(format!("oid-{cid}")), time_exchange: t })
                    } else {
                        // what the exchange / the execution manager can answer to a cancel it did not perform
                        Err(match dt.rem_euclid(5) {
                            0 => OrderError::Connectivity(ConnectivityError::Timeout),
                            1 => OrderError::Rejected(ApiError::OrderAlreadyCancelled),
                            2 => OrderError::Rejected(ApiError::OrderAlreadyFullyFilled),
                            3 => OrderError::Rejected(ApiError::RateLimit),
                            _ => OrderError::Rejected(ApiError::OrderRejected("rejected".into())),
                        })
                    },
                };
                EngineEvent::Account(AccountStreamEvent::Item(AccountEvent { exchange: self.exchange_of(inst), kind: AccountEventKind::OrderCancelled(resp) }))
            }
            EvSpec::Fill { inst, buy, price_q, qty, fee_bp, dt } => {
                let inst = self.inst(*inst);
                let t = self.time(*dt);
                self.trade_seq += 1;
                let price = Decimal::new((*price_q).max(1) as i64 * 25, 2);
                let quantity = Decimal::new((*qty).max(1) as i64, 1);
                // fee in basis points of the fill's value; the top bit marks a rebate (negative fee)
                let fee_rate = Decimal::new((*fee_bp & 0x7fff) as i64, 4) * if *fee_bp & 0x8000 != 0 { Decimal::NEGATIVE_ONE } else { Decimal::ONE };
                let fees = (price * quantity * fee_rate).round_dp(8);
                EngineEvent::Account(AccountStreamEvent::Item(AccountEvent {
                    exchange: self.exchange_of(inst),
                    kind: AccountEventKind::Trade(Trade {
                        id: TradeId::new(format!("fill-{}", self.trade_seq)),
                        order_id: OrderId::new(format!("fo-{}", self.trade_seq)),
                        instrument: inst,
                        strategy: StrategyId::new(STRATEGY),
                        time_exchange: t,
                        side: if *buy { Side::Buy } else { Side::Sell },
                        price,
                        quantity,
                        fees: AssetFees::quote_fees(fees),
                    }),
                }))
            }
            EvSpec::TradingState { enabled } => EngineEvent::TradingStateUpdate(if *enabled { TradingState::Enabled } else { TradingState::Disabled }),
            EvSpec::CmdCancelOrders(f) => EngineEvent::Command(Command::CancelOrders(self.filter(f))),
            EvSpec::CmdClosePositions(f) => EngineEvent::Command(Command::ClosePositions(self.filter(f))),
            EvSpec::CmdSendOpen(reqs) if !reqs.is_empty() => {
                let mut v = Vec::new();
                for r in reqs {
                    v.push(self.open_request(r));
                }
                EngineEvent::Command(Command::SendOpenRequests(OneOrMany::from_iter(v)))
            }
            EvSpec::CmdSendCancel(reqs) if !reqs.is_empty() => EngineEvent::Command(Command::SendCancelRequests(OneOrMany::from_iter(reqs.iter().map(|r| self.cancel_request(r))))),
            EvSpec::CmdSendOpen(_) | EvSpec::CmdSendCancel(_) => EngineEvent::Command(Command::CancelOrders(InstrumentFilter::Instruments(OneOrMany::One(InstrumentIndex(self.n_inst() + 7))))),
            EvSpec::Shutdown => EngineEvent::shutdown(),
        }
    }
}

// ---------------------------------------------------------------------------------------------
// proptest strategies for the vocabulary
// ---------------------------------------------------------------------------------------------

pub mod strat {
    use super::*;
    use proptest::prelude::*;

    pub fn req_spec(allow_refuse: bool, allow_unknown: bool) -> impl Strategy<Value = ReqSpec> {
        (
            0u8..8,
            0u16..16,
            if allow_refuse { prop::bool::weighted(0.25).boxed() } else { Just(false).boxed() },
            if allow_unknown { prop::bool::weighted(0.03).boxed() } else { Just(false).boxed() },
            any::<bool>(),
        )
            .prop_map(|(inst, cid, refuse, unknown_exchange, buy)| ReqSpec { inst, cid, refuse, unknown_exchange, buy })
    }

    pub fn filter_spec() -> impl Strategy<Value = FilterSpec> {
        prop_oneof![
            2 => Just(FilterSpec::None),
            3 => prop::collection::vec(0u8..5, 0..4).prop_map(FilterSpec::Exchanges),
            3 => prop::collection::vec(0u8..9, 0..4).prop_map(FilterSpec::Instruments),
            3 => prop::collection::vec(0u8..8, 0..3).prop_map(FilterSpec::Underlyings),
        ]
    }

    pub fn dt() -> impl Strategy<Value = i32> {
        prop_oneof![8 => 0i32..2000, 2 => -3000i32..0]
    }

    pub fn market_item() -> impl Strategy<Value = EvSpec> {
        prop_oneof![
            (0u8..8, 1u32..2000, dt()).prop_map(|(inst, price_q, dt)| EvSpec::MarketTrade { inst, price_q, dt }),
            (0u8..8, prop::option::weighted(0.85, (1u32..2000, 1u16..50)), prop::option::weighted(0.85, (1u32..2000, 1u16..50)), dt())
                .prop_map(|(inst, bid_q, ask_q, dt)| EvSpec::MarketL1 { inst, bid_q, ask_q, dt }),
        ]
    }

    pub fn account_item() -> impl Strategy<Value = EvSpec> {
        prop_oneof![
            2 => (0u8..12, 0u32..100_000, dt()).prop_map(|(asset, total, dt)| EvSpec::Balance { asset, total, dt }),
            4 => (0u16..16, 0u8..8, any::<bool>(), 0u8..=4, dt()).prop_map(|(cid, inst, buy, filled, dt)| EvSpec::OrderOpen { cid, inst, buy, filled, dt }),
            1 => (0u16..16, 0u8..8, any::<bool>(), prop_oneof![Just(InactiveKind::FullyFilled), Just(InactiveKind::Cancelled), Just(InactiveKind::Expired), Just(InactiveKind::OpenFailed)], dt())
                .prop_map(|(cid, inst, buy, kind, dt)| EvSpec::OrderInactive { cid, inst, buy, kind, dt }),
            1 => (0u16..16, 0u8..8, any::<bool>(), dt()).prop_map(|(cid, inst, ok, dt)| EvSpec::CancelResp { cid, inst, ok, dt }),
            3 => fill(),
        ]
    }

    pub fn fill() -> impl Strategy<Value = EvSpec> {
        (0u8..8, any::<bool>(), 1u32..2000, prop_oneof![Just(10u16), Just(20u16), Just(5u16), 1u16..60], prop_oneof![Just(0u16), 1u16..100], 0i32..2000)
            .prop_map(|(inst, buy, price_q, qty, fee_bp, dt)| EvSpec::Fill { inst, buy, price_q, qty, fee_bp, dt })
    }

    /// fills concentrated on two instruments with a fixed size: closes and flips are frequent
    pub fn fill_focus() -> impl Strategy<Value = EvSpec> {
        (0u8..2, any::<bool>(), 1u32..2000, prop_oneof![3 => Just(10u16), 1 => Just(20u16)], prop_oneof![Just(0u16), 1u16..100], 0i32..2000)
            .prop_map(|(inst, buy, price_q, qty, fee_bp, dt)| EvSpec::Fill { inst, buy, price_q, qty, fee_bp, dt })
    }

    pub fn command(allow_unknown: bool) -> impl Strategy<Value = EvSpec> {
        prop_oneof![
            filter_spec().prop_map(EvSpec::CmdCancelOrders),
            filter_spec().prop_map(EvSpec::CmdClosePositions),
            prop::collection::vec(req_spec(false, allow_unknown), 1..4).prop_map(EvSpec::CmdSendOpen),
            prop::collection::vec(req_spec(false, allow_unknown), 1..4).prop_map(EvSpec::CmdSendCancel),
        ]
    }

    pub fn account_snapshot() -> impl Strategy<Value = EvSpec> {
        (0u8..5, prop::collection::vec((0u8..12, 0u32..100_000), 0..3), prop::collection::vec((0u16..16, 0u8..8, 0u8..4), 0..3), prop::collection::vec(0u8..8, 0..3), dt())
            .prop_map(|(ex, balances, orders, bare, dt)| EvSpec::AccountSnapshot { ex, balances, orders, bare, dt })
    }

    pub fn any_event(allow_unknown: bool) -> impl Strategy<Value = EvSpec> {
        prop_oneof![
            5 => market_item(),
            8 => account_item(),
            4 => fill_focus(),
            1 => (0u8..5).prop_map(|ex| EvSpec::MarketReconnecting { ex }),
            1 => (0u8..5).prop_map(|ex| EvSpec::AccountReconnecting { ex }),
            2 => any::<bool>().prop_map(|enabled| EvSpec::TradingState { enabled }),
            4 => command(allow_unknown),
        ]
    }
}
