//! C15 — Unrealised PnL of an open position tracks the instrument's latest price.
//!
//! Check `unrealised_pnl`: generated interleavings of fills and priced market events (public
//! trades, top-of-book updates incl. stale and one-sided ones) on 1-3 instruments are processed by
//! `Engine::process`; after every event the open position's `pnl_unrealised` is compared with the
//! documented estimate (own formula) at the instrument's current price / the fill price.

use crate::framework::{CaseReport, Check, Ctx, Tier, known_active};
use crate::props::enginekit::{EvSpec, Link, Resolver, Rig, strat};
use crate::props::world::{InstrumentDef, KindDef, UnitDef};
use barter::{
    EngineEvent,
    engine::{
        Processor,
        state::{instrument::data::InstrumentDataState, position::Position, trading::TradingState},
    },
    execution::AccountStreamEvent,
};
use barter_data::streams::consumer::MarketStreamEvent;
use barter_execution::AccountEventKind;
use barter_instrument::{Side, asset::QuoteAsset, instrument::InstrumentIndex};
use proptest::prelude::*;
use rust_decimal::Decimal;
use serde::{Deserialize, Serialize};
use serde_json::Value;

pub const SIG_OPENING_FILL: &str = "opening-fill-unrealised-not-minus-entry-fee";

#[derive(Debug, Clone, Serialize, Deserialize)]
pub struct PnlCase {
    pub n_instruments: u8,
    pub events: Vec<EvSpec>,
    /// Some(s): the first instrument is a perpetual (settlement selector s, which also fixes its
    /// contract size: 1, 0.01 or 10) instead of spot
    #[serde(default)]
    pub perpetual: Option<u8>,
}

pub struct UnrealisedPnl;

fn world_contract_size_differs(settle: u8) -> bool {
    crate::props::world::contract_size_of(settle) != Decimal::ONE
}

/// Documented estimate: price move on the open quantity minus pro-rata estimated exit fees.
fn estimate(p: &Position<QuoteAsset, InstrumentIndex>, price: Decimal) -> Decimal {
    let moved = match p.side {
        Side::Buy => p.quantity_abs * (price - p.price_entry_average),
        Side::Sell => p.quantity_abs * (p.price_entry_average - price),
    };
    moved - (p.quantity_abs / p.quantity_abs_max) * p.fees_enter.fees
}

fn close_enough(a: Decimal, b: Decimal) -> bool {
    (a - b).abs() <= Decimal::new(1, 18) * (Decimal::ONE + a.abs().max(b.abs()))
}

impl Check for UnrealisedPnl {
    type Case = PnlCase;
    const NAME: &'static str = "unrealised_pnl";

    fn normalise(mut case: PnlCase) -> PnlCase {
        // full account snapshots are not part of this check's input domain
        case.events.retain(|e| !matches!(e, EvSpec::AccountSnapshot { .. }));
        // magnitudes as generated (prices on a 0.25 grid up to 500, quantities up to 6, fees up to
        // 1 %): the oracle compares exactly, which Decimal's 28 significant digits only carry for
        // such values
        case.n_instruments = 1 + case.n_instruments % 3;
        for e in &mut case.events {
            match e {
                EvSpec::Fill { price_q, qty, fee_bp, dt, .. } => {
                    *price_q = 1 + *price_q % 1999;
                    *qty = 1 + *qty % 59;
                    *fee_bp = (*fee_bp & 0x8000) | ((*fee_bp & 0x7fff) % 100);
                    *dt = dt.rem_euclid(2000);
                }
                EvSpec::MarketTrade { price_q, dt, .. } => {
                    *price_q %= 2000;
                    *dt %= 3000;
                }
                EvSpec::MarketL1 { bid_q, ask_q, dt, .. } => {
                    for side in [bid_q, ask_q] {
                        if let Some((p, a)) = side {
                            *p = 1 + *p % 1999;
                            *a = 1 + *a % 49;
                        }
                    }
                    *dt %= 3000;
                }
                _ => {}
            }
        }
        case
    }

    fn strategy(tier: Tier) -> BoxedStrategy<PnlCase> {
        let max = match tier {
            Tier::Quick => 30,
            Tier::Thorough => 60,
        };
        (
            1u8..=3,
            prop::collection::vec(
                prop_oneof![
                    4 => (0u8..3, any::<bool>(), 1u32..2000, prop_oneof![3 => Just(10u16), 1 => Just(20u16), 1 => Just(5u16), 1 => 1u16..40], prop_oneof![3 => Just(0u16), 4 => 1u16..100, 1 => (1u16..100).prop_map(|bp| bp | 0x8000)], 0i32..2000)
                        .prop_map(|(inst, buy, price_q, qty, fee_bp, dt)| EvSpec::Fill { inst, buy, price_q, qty, fee_bp, dt }),
                    3 => (0u8..3, prop_oneof![30 => 1u32..2000, 1 => Just(0u32)], strat::dt()).prop_map(|(inst, price_q, dt)| EvSpec::MarketTrade { inst, price_q, dt }),
                    3 => (0u8..3, prop::option::weighted(0.85, (1u32..2000, 1u16..50)), prop::option::weighted(0.85, (1u32..2000, 1u16..50)), strat::dt())
                        .prop_map(|(inst, bid_q, ask_q, dt)| EvSpec::MarketL1 { inst, bid_q, ask_q, dt }),
                    // a link of an exchange drops: prices keep arriving (or the other way round)
                    1 => (0u8..2, any::<bool>()).prop_map(|(ex, account)| if account { EvSpec::AccountReconnecting { ex } } else { EvSpec::MarketReconnecting { ex } }),
                ],
                1..max,
            ),
            prop::option::weighted(0.4, 0u8..7),
        )
            .prop_map(|(n_instruments, events, perpetual)| PnlCase { n_instruments, events, perpetual })
            .boxed()
    }

    fn eval(case: &PnlCase) -> CaseReport {
        let mut rep = CaseReport::new();
        macro_rules! bad {
            ($sig:expr, $($fmt:tt)+) => {{ rep.fail($sig, format!($($fmt)+)); return rep; }};
        }
        let n = case.n_instruments.clamp(1, 3);
        // instruments on two exchanges so that the engine-level routing by index is exercised
        let defs: Vec<InstrumentDef> = (0..n)
            .map(|i| InstrumentDef { exchange: if i == 2 { 0 } else { 1 }, base: i, quote: 3, kind: match (i, case.perpetual) { (0, Some(settle)) => KindDef::Perpetual { settle }, _ => KindDef::Spot }, unit: UnitDef::NoSpec })
            .collect();
        let mut rig = Rig::new(&defs, &[Link::Healthy; 4], TradingState::Disabled);
        let indexed = rig.indexed.clone();
        let mut resolver = Resolver::new(&indexed);
        let mut priced_after_fill = vec![0u32; indexed.instruments().len()];
        let mut last_price_seen: Vec<Option<Decimal>> = vec![None; indexed.instruments().len()];
        let (mut tracked_move, mut stale_events, mut opening_with_fee, mut fills_on_position) = (false, 0u32, 0u32, 0u32);

        for (k, spec) in case.events.iter().enumerate() {
            let event = resolver.resolve(spec);
            let before = rig.engine.state.clone();
            let _ = rig.engine.process(event.clone());
            match &event {
                EngineEvent::Market(MarketStreamEvent::Item(m)) => {
                    let i = m.instrument;
                    let st = rig.engine.state.instruments.instrument_index(&i);
                    let b = before.instruments.instrument_index(&i);
                    let data_changed = st.data != b.data;
                    if !data_changed {
                        stale_events += 1;
                    }
                    let (Some(pos), Some(price)) = (&st.position.current, st.data.price()) else { continue };
                    let want = estimate(pos, price);
                    let unchanged = b.position.current.as_ref().map(|p| p.pnl_unrealised) == Some(pos.pnl_unrealised);
                    // a market event that did not change the instrument's data (stale / one-sided
                    // without effect) may leave the estimate as it was
                    if close_enough(pos.pnl_unrealised, want) || (!data_changed && unchanged) {
                        if data_changed {
                            priced_after_fill[i.index()] += 1;
                            if last_price_seen[i.index()].is_some_and(|p| p != price) && priced_after_fill[i.index()] >= 2 {
                                tracked_move = true;
                            }
                            last_price_seen[i.index()] = Some(price);
                        }
                    } else {
                        bad!(
                            "stale-unrealised-pnl",
                            "event {k} {spec:?}: instrument {} price is now {price}, position {:?} {} @ {} (max {}, entry fees {}) has pnl_unrealised {} but the estimate at the current price is {want}",
                            i.index(), pos.side, pos.quantity_abs, pos.price_entry_average, pos.quantity_abs_max, pos.fees_enter.fees, pos.pnl_unrealised
                        );
                    }
                    // nothing else of the position moves on market data
                    if let Some(bp) = &b.position.current {
                        let mut a = pos.clone();
                        a.pnl_unrealised = bp.pnl_unrealised;
                        if a != *bp {
                            bad!("market-event-changed-position", "event {k} {spec:?}: market data changed position fields other than pnl_unrealised: {bp:?} -> {pos:?}");
                        }
                    }
                }
                EngineEvent::Account(AccountStreamEvent::Item(a)) => {
                    let AccountEventKind::Trade(t) = &a.kind else { continue };
                    let i = t.instrument;
                    priced_after_fill[i.index()] = 0;
                    last_price_seen[i.index()] = None;
                    let st = rig.engine.state.instruments.instrument_index(&i);
                    let b = before.instruments.instrument_index(&i);
                    let Some(pos) = &st.position.current else { continue };
                    let want = estimate(pos, t.price);
                    let opening = b.position.current.as_ref().is_none_or(|bp| bp.side != pos.side);
                    if opening {
                        // opening fill (fresh, or the remainder of a flip): estimate = -entry fee
                        if !pos.fees_enter.fees.is_zero() {
                            opening_with_fee += 1;
                        }
                        if !close_enough(pos.pnl_unrealised, want) {
                            if pos.pnl_unrealised.is_zero() && known_active("C15", SIG_OPENING_FILL) {
                                rep.known(SIG_OPENING_FILL);
                            } else if pos.pnl_unrealised.is_zero() {
                                bad!(SIG_OPENING_FILL, "event {k} {spec:?}: opening fill with entry fee {} leaves pnl_unrealised = 0, the documented estimate at the fill price is {want}", pos.fees_enter.fees);
                            } else {
                                bad!("opening-fill-unrealised-wrong", "event {k} {spec:?}: opening fill leaves pnl_unrealised = {}, estimate at the fill price is {want}", pos.pnl_unrealised);
                            }
                        }
                    } else {
                        fills_on_position += 1;
                        if !close_enough(pos.pnl_unrealised, want) {
                            bad!("fill-unrealised-pnl", "event {k} {spec:?}: after the fill pnl_unrealised = {}, estimate at the fill price {} is {want} (position {pos:?})", pos.pnl_unrealised, t.price);
                        }
                    }
                }
                _ => {}
            }
        }
        rep.class_if(tracked_move, "two_prices_after_last_fill");
        rep.class_if(stale_events > 0, "stale_or_ineffective_market_event");
        rep.class_if(opening_with_fee > 0, "opening_fill_with_fee");
        rep.class_if(fills_on_position > 0, "fill_on_existing_position");
        rep.class_if(n >= 2, "several_instruments");
        rep.class_if(case.perpetual.is_some_and(|s| world_contract_size_differs(s)), "perpetual_with_contract_size_not_one");
        rep.class_if(case.events.iter().any(|e| matches!(e, EvSpec::Fill { fee_bp, .. } if fee_bp & 0x8000 != 0)), "fill_with_maker_rebate");
        rep.class_if(case.events.iter().any(|e| matches!(e, EvSpec::MarketTrade { price_q: 0, .. })), "public_trade_at_price_zero");
        rep.class_if(case.events.iter().any(|e| matches!(e, EvSpec::AccountReconnecting { .. } | EvSpec::MarketReconnecting { .. })), "link_drop_notice_in_history");
        rep.nontrivial = tracked_move;
        rep
    }
}

pub fn run(ctx: &mut Ctx) {
    ctx.rule = "unrealised_pnl: 1..3 instruments on two exchanges (in 40% of the cases the first one a perpetual with contract size 1, 0.01 or 10); vec(event,1..30|60) of fills (size 0.5/1/2/random, fee 0, 1..99 bp, or a maker rebate of 1..99 bp) interleaved with public trades (1 in 30 at price zero) and L1 updates (15% missing side, 20% stale timestamps) through Engine::process. non-trivial = some instrument with an open position saw >= 2 effective priced market events with different prices after its last fill; distinct by hash of the case.".into();
    ctx.assumptions = vec![
        "the instrument's current price is InstrumentDataState::price(); a market event that leaves the instrument's data unchanged (stale timestamp) may leave the estimate unchanged".into(),
        "estimate formula from the docs: sign*q*(price - avg_entry) - (q/q_max)*fees_enter; tolerance 1e-18 relative".into(),
    ];
    ctx.run_regressions::<UnrealisedPnl>();
    ctx.run::<UnrealisedPnl>(ctx.tier.pick(60_000, 1_000_000));
}

pub fn replay(ctx: &mut Ctx, doc: &Value) -> bool {
    ctx.replay::<UnrealisedPnl>(doc)
}
