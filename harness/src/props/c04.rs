//! C04 — Engine indices and exchange names translate both ways without mix-ups.
//!
//! Check `index_name_translation`: for generated instrument collections over 1-4 exchanges, for
//! every exchange's `ExecutionInstrumentMap` and every global instrument / asset index (own and
//! foreign) the index->name->index round trip, the outbound request translation
//! (`AccountEventIndexer::order_request`) and the inbound event translation (balance, order
//! snapshot, cancel response, trade, full snapshot) are compared with a table computed from
//! `IndexedInstruments` alone; indexed events are then applied to an `EngineState` and must touch
//! exactly the named asset / instrument.
//! Check `execution_manager_routing` (async, paused clock) lives in c07.rs's kit and is run from
//! here: a request for instrument i reaches the stub client addressed to i's exchange name.

use crate::framework::{CaseReport, Check, Ctx, Tier};
use crate::props::gens::{ts, T0_MS};
use crate::props::world::{self, InstrumentDef, instrument_def};
use barter::engine::state::trading::TradingState;
use barter_execution::{
    AccountEvent, AccountEventKind, AccountSnapshot, InstrumentAccountSnapshot, UnindexedAccountEvent, UnindexedAccountSnapshot,
    balance::{AssetBalance, Balance},
    error::{ApiError, OrderError},
    indexer::AccountEventIndexer,
    map::generate_execution_instrument_map,
    order::{
        Order, OrderEvent, OrderKey, OrderKind, TimeInForce,
        id::{ClientOrderId, OrderId, StrategyId},
        request::{OrderResponseCancel, RequestCancel},
        state::{Cancelled, Open, OrderState},
    },
    trade::{AssetFees, Trade, TradeId},
};
use barter_instrument::{
    Side,
    asset::{AssetIndex, name::AssetNameExchange},
    exchange::{ExchangeId, ExchangeIndex},
    instrument::{InstrumentIndex, name::InstrumentNameExchange},
};
use barter_integration::snapshot::Snapshot;
use proptest::prelude::*;
use rust_decimal::Decimal;
use serde::{Deserialize, Serialize};
use serde_json::Value;
use std::sync::Arc;

#[derive(Debug, Clone, Serialize, Deserialize)]
pub struct MapCase {
    pub defs: Vec<InstrumentDef>,
}

pub struct IndexNameTranslation;

fn unindexed_key(ex: ExchangeId, name: &InstrumentNameExchange, cid: &str) -> OrderKey<ExchangeId, InstrumentNameExchange> {
    OrderKey { exchange: ex, instrument: name.clone(), strategy: StrategyId::new("s"), cid: ClientOrderId::new(cid) }
}

impl Check for IndexNameTranslation {
    type Case = MapCase;
    const NAME: &'static str = "index_name_translation";

    fn normalise(mut case: MapCase) -> MapCase {
        case.defs = world::normalise_defs(case.defs, false);
        if case.defs.is_empty() {
            case.defs.push(InstrumentDef { exchange: 0, base: 0, quote: 2, kind: world::KindDef::Spot, unit: world::UnitDef::NoSpec });
        }
        case
    }

    fn strategy(tier: Tier) -> BoxedStrategy<MapCase> {
        let max = match tier {
            Tier::Quick => 9usize,
            Tier::Thorough => 14usize,
        };
        (1u8..=4)
            .prop_flat_map(move |n| prop::collection::vec(instrument_def(n), 1..=max))
            .prop_map(|defs| MapCase { defs })
            .boxed()
    }

    fn eval(case: &MapCase) -> CaseReport {
        let mut rep = CaseReport::new();
        macro_rules! bad {
            ($sig:expr, $($fmt:tt)+) => {{ rep.fail($sig, format!($($fmt)+)); return rep; }};
        }
        let indexed = world::index(&case.defs);
        let pristine = world::engine_state(&indexed, TradingState::Disabled);
        let mut second_exchange_probed = false;
        let mut shared_instrument_name = false;
        let mut shared_asset_name = false;

        // absent exchange
        if let Some(absent) = world::EXCHANGES.iter().find(|e| indexed.find_exchange_index(**e).is_err()) {
            if generate_execution_instrument_map(&indexed, *absent).is_ok() {
                bad!("map-for-absent-exchange", "a map was generated for {absent}, which is not in the collection");
            }
        }

        for ex in indexed.exchanges() {
            let (ex_idx, ex_id) = (ex.key, ex.value);
            let map = match generate_execution_instrument_map(&indexed, ex_id) {
                Ok(m) => m,
                Err(e) => bad!("map-generation-failed", "exchange {ex_id}: {e}"),
            };
            // exchange translation
            if map.find_exchange_id(ex_idx).ok() != Some(ex_id) || map.find_exchange_index(ex_id).ok() != Some(ex_idx) {
                bad!("exchange-translation", "map of {ex_id}: find_exchange_id/index do not return its own exchange");
            }
            for other in indexed.exchanges().iter().filter(|o| o.key != ex_idx) {
                if map.find_exchange_id(other.key).is_ok() || map.find_exchange_index(other.value).is_ok() {
                    bad!("foreign-exchange-translates", "map of {ex_id} translates foreign exchange {}", other.value);
                }
            }
            let first_global_instrument = indexed.instruments().iter().find(|i| i.value.exchange.key == ex_idx).map(|i| i.key.index());
            let first_global_asset = indexed.assets().iter().find(|a| a.value.exchange == ex_id).map(|a| a.key.index());

            // ---- instruments: every global index --------------------------------------------------
            for ins in indexed.instruments() {
                let own = ins.value.exchange.key == ex_idx;
                let name = &ins.value.name_exchange;
                let got = map.find_instrument_name_exchange(ins.key);
                if own {
                    if first_global_instrument.is_some_and(|f| f > 0) {
                        second_exchange_probed = true;
                    }
                    match got {
                        Ok(n) if n == name => {}
                        other => bad!("instrument-index-to-name", "map of {ex_id}: {} (exchange name {name}) translates to {other:?}", ins.key),
                    }
                    match map.find_instrument_index(name) {
                        Ok(i) if i == ins.key => {}
                        other => bad!("instrument-name-to-index", "map of {ex_id}: name {name} translates to {other:?}, expected {}", ins.key),
                    }
                    // the same name in the other letter case is a different (unlisted) name
                    let flipped = InstrumentNameExchange::new(if name.name().chars().any(|c| c.is_ascii_uppercase()) { name.name().to_lowercase() } else { name.name().to_uppercase() });
                    if flipped != *name && !indexed.instruments().iter().any(|o| o.value.exchange.key == ex_idx && o.value.name_exchange == flipped) && map.find_instrument_index(&flipped).is_ok() {
                        bad!("unlisted-case-variant-translates", "map of {ex_id}: {flipped} is not listed on the exchange (only {name} is) yet translates to {:?}", map.find_instrument_index(&flipped));
                    }
                } else {
                    if got.is_ok() {
                        bad!("foreign-instrument-index-translates", "map of {ex_id}: {} belongs to {} yet translates to {:?}", ins.key, ins.value.exchange.value, got);
                    }
                    // a foreign instrument's exchange name only resolves if this exchange lists the same name
                    let same_name_here = indexed.instruments().iter().find(|o| o.value.exchange.key == ex_idx && o.value.name_exchange == *name);
                    match (map.find_instrument_index(name), same_name_here) {
                        (Ok(i), Some(o)) if i == o.key => shared_instrument_name = true,
                        (Err(_), None) => {}
                        (got, want) => bad!("foreign-instrument-name", "map of {ex_id}: name {name} of a foreign instrument translates to {got:?}, expected {:?}", want.map(|o| o.key)),
                    }
                }
            }
            if map.find_instrument_name_exchange(InstrumentIndex(indexed.instruments().len())).is_ok() {
                bad!("out-of-range-instrument", "map of {ex_id}: an index beyond the table translates");
            }
            // ---- assets: every global index -------------------------------------------------------
            for a in indexed.assets() {
                let own = a.value.exchange == ex_id;
                let name = &a.value.asset.name_exchange;
                let got = map.find_asset_name_exchange(a.key);
                if own {
                    if first_global_asset.is_some_and(|f| f > 0) {
                        second_exchange_probed = true;
                    }
                    match got {
                        Ok(n) if n == name => {}
                        other => bad!("asset-index-to-name", "map of {ex_id}: {} (exchange name {name}) translates to {other:?}", a.key),
                    }
                    match map.find_asset_index(name) {
                        Ok(i) if i == a.key => {}
                        other => bad!("asset-name-to-index", "map of {ex_id}: asset name {name} translates to {other:?}, expected {}", a.key),
                    }
                } else {
                    if got.is_ok() {
                        bad!("foreign-asset-index-translates", "map of {ex_id}: {} belongs to {} yet translates to {:?}", a.key, a.value.exchange, got);
                    }
                    let same_name_here = indexed.assets().iter().find(|o| o.value.exchange == ex_id && o.value.asset.name_exchange == *name);
                    match (map.find_asset_index(name), same_name_here) {
                        (Ok(i), Some(o)) if i == o.key => shared_asset_name = true,
                        (Err(_), None) => {}
                        (got, want) => bad!("foreign-asset-name", "map of {ex_id}: asset name {name} of a foreign asset translates to {got:?}, expected {:?}", want.map(|o| o.key)),
                    }
                }
            }
            // the map lists exactly this exchange's names
            let mut listed_i: Vec<String> = map.exchange_instruments().map(|n| n.to_string()).collect();
            let mut want_i: Vec<String> = indexed.instruments().iter().filter(|i| i.value.exchange.key == ex_idx).map(|i| i.value.name_exchange.to_string()).collect();
            listed_i.sort();
            want_i.sort();
            let mut listed_a: Vec<String> = map.exchange_assets().map(|n| n.to_string()).collect();
            let mut want_a: Vec<String> = indexed.assets().iter().filter(|a| a.value.exchange == ex_id).map(|a| a.value.asset.name_exchange.to_string()).collect();
            listed_a.sort();
            want_a.sort();
            if listed_i != want_i || listed_a != want_a {
                bad!("map-contents", "map of {ex_id} lists instruments {listed_i:?} assets {listed_a:?}, expected {want_i:?} / {want_a:?}");
            }

            // ---- indexer: outbound and inbound ----------------------------------------------------
            let indexer = AccountEventIndexer::new(Arc::new(map));
            for ins in indexed.instruments() {
                let own = ins.value.exchange.key == ex_idx;
                let req = OrderEvent {
                    key: OrderKey { exchange: ex_idx, instrument: ins.key, strategy: StrategyId::new("s"), cid: ClientOrderId::new("c1") },
                    state: RequestCancel { id: None },
                };
                match (indexer.order_request(&req), own) {
                    (Ok(out), true) => {
                        if out.key.exchange != ex_id || out.key.instrument != &ins.value.name_exchange || out.key.cid != req.key.cid {
                            bad!("outbound-request", "request for {} on {ex_id} is addressed to ({}, {}), expected ({ex_id}, {})", ins.key, out.key.exchange, out.key.instrument, ins.value.name_exchange);
                        }
                    }
                    (Err(_), false) => {}
                    (Ok(out), false) => bad!("outbound-foreign-request", "request for foreign {} translated by {ex_id}'s indexer to {}", ins.key, out.key.instrument),
                    (Err(e), true) => bad!("outbound-request", "request for {} on its own exchange {ex_id} is rejected: {e}", ins.key),
                }
                if !own {
                    continue;
                }
                // inbound: order snapshot / cancel response / trade / full snapshot for (ex_id, name)
                let name = &ins.value.name_exchange;
                let t = ts(T0_MS + 5_000);
                let open = Open { id: OrderId::new("oid"), time_exchange: t, filled_quantity: Decimal::ONE };
                let order: Order<ExchangeId, InstrumentNameExchange, OrderState<AssetNameExchange, InstrumentNameExchange>> = Order {
                    key: unindexed_key(ex_id, name, "c1"),
                    side: Side::Buy,
                    price: Decimal::from(10),
                    quantity: Decimal::from(3),
                    kind: OrderKind::Limit,
                    time_in_force: TimeInForce::GoodUntilCancelled { post_only: false },
                    state: OrderState::active(open),
                };
                let trade = Trade {
                    id: TradeId::new("t1"),
                    order_id: OrderId::new("oid"),
                    instrument: name.clone(),
                    strategy: StrategyId::new("s"),
                    time_exchange: t,
                    side: Side::Buy,
                    price: Decimal::from(10),
                    quantity: Decimal::ONE,
                    fees: AssetFees::quote_fees(Decimal::ZERO),
                };
                let quote_name = indexed.assets()[ins.value.underlying.quote.index()].value.asset.name_exchange.clone();
                let rejected: Order<ExchangeId, InstrumentNameExchange, OrderState<AssetNameExchange, InstrumentNameExchange>> = Order {
                    state: OrderState::inactive(OrderError::Rejected(ApiError::BalanceInsufficient(quote_name.clone(), "x".into()))),
                    key: unindexed_key(ex_id, name, "c2"),
                    ..order.clone()
                };
                let events: Vec<(&str, UnindexedAccountEvent)> = vec![
                    ("order-snapshot", UnindexedAccountEvent::new(ex_id, AccountEventKind::OrderSnapshot(Snapshot(order.clone())))),
                    ("order-rejected", UnindexedAccountEvent::new(ex_id, AccountEventKind::OrderSnapshot(Snapshot(rejected)))),
                    ("cancel-response", UnindexedAccountEvent::new(ex_id, AccountEventKind::OrderCancelled(OrderResponseCancel {
                        key: unindexed_key(ex_id, name, "c1"),
                        state: Ok(Cancelled { id: OrderId::new("oid"), time_exchange: t }),
                    }))),
                    ("trade", UnindexedAccountEvent::new(ex_id, AccountEventKind::Trade(trade))),
                    ("full-snapshot", UnindexedAccountEvent::new(ex_id, AccountEventKind::Snapshot(UnindexedAccountSnapshot {
                        exchange: ex_id,
                        balances: vec![AssetBalance { asset: quote_name.clone(), balance: Balance::new(Decimal::from(7), Decimal::from(7)), time_exchange: t }],
                        instruments: vec![InstrumentAccountSnapshot { instrument: name.clone(), orders: vec![order.clone()] }],
                    }))),
                ];
                // a full snapshot in which the client lumps this order under the entry of another
                // instrument of the exchange: every order is still the order of the instrument it names
                if let Some(other) = indexed.instruments().iter().find(|o| o.value.exchange.key == ex_idx && o.key != ins.key) {
                    let lumped = UnindexedAccountEvent::new(ex_id, AccountEventKind::Snapshot(UnindexedAccountSnapshot {
                        exchange: ex_id,
                        balances: vec![],
                        instruments: vec![InstrumentAccountSnapshot { instrument: other.value.name_exchange.clone(), orders: vec![order.clone()] }],
                    }));
                    match indexer.account_event(lumped) {
                        Ok(AccountEvent { kind: AccountEventKind::Snapshot(snap), .. }) => {
                            let got = snap.instruments.first().map(|g| (g.instrument, g.orders.first().map(|o| o.key.instrument)));
                            if got != Some((other.key, Some(ins.key))) {
                                bad!("inbound-lumped-snapshot", "full snapshot listing an order for {name} under the entry of {}: indexed (entry, order) = {got:?}, expected ({}, {})", other.value.name_exchange, other.key, ins.key);
                            }
                        }
                        other_result => bad!("inbound-lumped-snapshot", "full snapshot listing an order for {name} under another instrument's entry: {other_result:?}"),
                    }
                }
                for (what, ev) in events {
                    let indexed_ev: AccountEvent = match indexer.account_event(ev) {
                        Ok(e) => e,
                        Err(e) => bad!("inbound-rejected", "{what} for ({ex_id}, {name}) is rejected: {e}"),
                    };
                    if indexed_ev.exchange != ex_idx {
                        bad!("inbound-exchange", "{what} for ({ex_id}, {name}) indexed to exchange {}", indexed_ev.exchange);
                    }
                    let (inst_got, asset_got): (Option<InstrumentIndex>, Option<AssetIndex>) = match &indexed_ev.kind {
                        AccountEventKind::OrderSnapshot(s) => (
                            Some(s.0.key.instrument),
                            match &s.0.state {
                                OrderState::Inactive(barter_execution::order::state::InactiveOrderState::OpenFailed(OrderError::Rejected(ApiError::BalanceInsufficient(a, _)))) => Some(*a),
                                _ => None,
                            },
                        ),
                        AccountEventKind::OrderCancelled(r) => (Some(r.key.instrument), None),
                        AccountEventKind::Trade(t) => (Some(t.instrument), None),
                        AccountEventKind::Snapshot(AccountSnapshot { balances, instruments, .. }) => {
                            if instruments.len() != 1 || balances.len() != 1 || instruments[0].orders.len() != 1 || instruments[0].orders[0].key.instrument != instruments[0].instrument {
                                bad!("inbound-snapshot-shape", "{what}: indexed snapshot has a different shape: {indexed_ev:?}");
                            }
                            (Some(instruments[0].instrument), Some(balances[0].asset))
                        }
                        AccountEventKind::BalanceSnapshot(_) => (None, None),
                    };
                    if inst_got != Some(ins.key) {
                        bad!("inbound-instrument", "{what} for ({ex_id}, {name}) indexed to {inst_got:?}, expected {}", ins.key);
                    }
                    if let Some(a) = asset_got {
                        if a != ins.value.underlying.quote {
                            bad!("inbound-asset", "{what}: asset {quote_name} on {ex_id} indexed to {a}, expected {}", ins.value.underlying.quote);
                        }
                    }
                    // applied to the engine state it changes exactly the named instrument (+ asset)
                    let mut state = pristine.clone();
                    let _ = state.update_from_account(&indexed_ev);
                    for other in indexed.instruments() {
                        let changed = state.instruments.instrument_index(&other.key) != pristine.instruments.instrument_index(&other.key);
                        let should = other.key == ins.key && matches!(what, "order-snapshot" | "trade" | "full-snapshot");
                        if changed != should {
                            bad!("applied-to-wrong-instrument", "{what} for ({ex_id}, {name}): instrument {} changed = {changed}, expected {should}", other.key);
                        }
                    }
                    for a in indexed.assets() {
                        let changed = state.assets.asset_index(&a.key) != pristine.assets.asset_index(&a.key);
                        let should = what == "full-snapshot" && a.key == ins.value.underlying.quote;
                        if changed != should {
                            bad!("applied-to-wrong-asset", "{what} for ({ex_id}, {name}): asset {} changed = {changed}, expected {should}", a.key);
                        }
                    }
                }
            }
            // inbound balance for every asset of this exchange
            for a in indexed.assets().iter().filter(|a| a.value.exchange == ex_id) {
                let ev = UnindexedAccountEvent::new(ex_id, AccountEventKind::BalanceSnapshot(Snapshot(AssetBalance {
                    asset: a.value.asset.name_exchange.clone(),
                    balance: Balance::new(Decimal::from(5), Decimal::from(5)),
                    time_exchange: ts(T0_MS + 9_000),
                })));
                let out = match indexer.account_event(ev) {
                    Ok(o) => o,
                    Err(e) => bad!("inbound-rejected", "balance for ({ex_id}, {}) rejected: {e}", a.value.asset.name_exchange),
                };
                match &out.kind {
                    AccountEventKind::BalanceSnapshot(b) if b.0.asset == a.key && out.exchange == ex_idx => {}
                    other => bad!("inbound-balance", "balance for ({ex_id}, {}) indexed to {other:?}, expected {}", a.value.asset.name_exchange, a.key),
                }
                let mut state = pristine.clone();
                let _ = state.update_from_account(&out);
                for o in indexed.assets() {
                    let changed = state.assets.asset_index(&o.key) != pristine.assets.asset_index(&o.key);
                    if changed != (o.key == a.key) {
                        bad!("applied-to-wrong-asset", "balance for ({ex_id}, {}): asset {} changed = {changed}", a.value.asset.name_exchange, o.key);
                    }
                }
            }
            // events naming another exchange or an unknown name are rejected
            let foreign = UnindexedAccountEvent::new(
                world::EXCHANGES.iter().copied().find(|e| *e != ex_id).unwrap(),
                AccountEventKind::BalanceSnapshot(Snapshot(AssetBalance { asset: AssetNameExchange::new("BTC"), balance: Balance::default(), time_exchange: ts(T0_MS) })),
            );
            if indexer.account_event(foreign).is_ok() {
                bad!("inbound-foreign-exchange-accepted", "{ex_id}'s indexer accepted an event of another exchange");
            }
            let unknown = UnindexedAccountEvent::new(ex_id, AccountEventKind::BalanceSnapshot(Snapshot(AssetBalance { asset: AssetNameExchange::new("NOPE"), balance: Balance::default(), time_exchange: ts(T0_MS) })));
            if indexer.account_event(unknown).is_ok() {
                bad!("inbound-unknown-asset-accepted", "{ex_id}'s indexer accepted an unknown asset name");
            }
        }
        rep.class_if(indexed.exchanges().len() >= 2, "two_or_more_exchanges");
        rep.class_if(second_exchange_probed, "probed_index_on_exchange_not_starting_at_zero");
        rep.class_if(shared_instrument_name, "instrument_exchange_name_shared_between_exchanges");
        rep.class_if(shared_asset_name, "asset_exchange_name_shared_between_exchanges");
        rep.nontrivial = indexed.exchanges().len() >= 2 && second_exchange_probed;
        rep
    }
}


// ---------------------------------------------------------------------------------------------
// link_routing: the assembled execution layer (ExecutionBuilder -> MultiExchangeTxMap ->
// ExecutionManager -> MockExecution -> MockExchange) routes by engine index
// ---------------------------------------------------------------------------------------------

#[derive(Debug, Clone, Serialize, Deserialize)]
pub struct RoutingCase {
    /// all-spot collection (the mock exchange documents no other kind)
    pub defs: Vec<InstrumentDef>,
    /// bit e set: pool exchange e gets a mock execution link; the others are data-only
    pub mock_mask: u8,
    /// (instrument selector, buy)
    pub probes: Vec<(u16, bool)>,
    /// the burst is handed to an `Engine` as ONE `SendOpenRequests` command (one batch spanning the
    /// exchanges) instead of being written to the links request by request
    #[serde(default)]
    pub engine_batch: bool,
}

pub struct LinkRouting;

impl Check for LinkRouting {
    type Case = RoutingCase;
    const NAME: &'static str = "link_routing";

    fn normalise(mut case: RoutingCase) -> RoutingCase {
        case.defs = world::normalise_defs(case.defs, true).into_iter().map(|mut d| { d.kind = world::KindDef::Spot; d.base %= 5; d.quote %= 5; if d.quote == d.base { d.quote = (d.base + 1) % 5; } d }).collect();
        case.defs.truncate(10);
        if case.defs.is_empty() {
            case.defs.push(InstrumentDef { exchange: 0, base: 0, quote: 2, kind: world::KindDef::Spot, unit: world::UnitDef::NoSpec });
        }
        case.mock_mask = 1 + case.mock_mask % 31;
        case.probes.truncate(5);
        case
    }

    fn strategy(tier: Tier) -> BoxedStrategy<RoutingCase> {
        let max = if tier == Tier::Quick { 6usize } else { 10usize };
        (
            (2u8..=4).prop_flat_map(move |n| prop::collection::vec((0..n, 0u8..5, 0u8..4), 2..=max)),
            1u8..32,
            prop::collection::vec((any::<u16>(), any::<bool>()), 1..6),
            any::<bool>(),
        )
            .prop_map(|(raw, mock_mask, probes, engine_batch)| RoutingCase {
                defs: raw.into_iter().map(|(exchange, base, dq)| InstrumentDef { exchange, base, quote: (base + 1 + dq) % 5, kind: world::KindDef::Spot, unit: world::UnitDef::NoSpec }).collect(),
                mock_mask,
                probes,
                engine_batch,
            })
            .boxed()
    }

    fn eval(case: &RoutingCase) -> CaseReport {
        use barter::{
            engine::{clock::HistoricalClock, execution_tx::ExecutionTxMap},
            execution::{AccountStreamEvent, builder::ExecutionBuilder, request::ExecutionRequest},
        };
        use barter_execution::{client::mock::MockExecutionConfig, order::request::{OrderRequestOpen, RequestOpen}};
        use barter_integration::channel::Tx;
        use std::time::Duration;

        let mut rep = CaseReport::new();
        macro_rules! bad {
            ($sig:expr, $($fmt:tt)+) => {{ rep.fail($sig, format!($($fmt)+)); return rep; }};
        }
        let defs: Vec<InstrumentDef> = case.defs.iter().copied().map(|mut d| { d.kind = world::KindDef::Spot; d.unit = world::UnitDef::NoSpec; d }).collect();
        if defs.is_empty() {
            return rep;
        }
        let indexed = world::index(&defs);
        let n_ex = indexed.exchanges().len();
        let mocked: Vec<bool> = indexed.exchanges().iter().map(|e| {
            let bit = world::EXCHANGES.iter().position(|x| *x == e.value).unwrap_or(0);
            case.mock_mask & (1 << bit) != 0
        }).collect();
        let rt = tokio::runtime::Builder::new_current_thread().enable_time().start_paused(true).build().expect("runtime");
        let outcome: Result<(u32, u32, bool, usize), (String, String)> = rt.block_on(async {
            let mut builder = ExecutionBuilder::new(&indexed);
            for (e, ex) in indexed.exchanges().iter().enumerate() {
                if !mocked[e] {
                    continue;
                }
                let balances = indexed.assets().iter().filter(|a| a.value.exchange == ex.value).map(|a| AssetBalance { asset: a.value.asset.name_exchange.clone(), balance: Balance::new(Decimal::from(1_000_000_000u64), Decimal::from(1_000_000_000u64)), time_exchange: ts(T0_MS) }).collect();
                let config = MockExecutionConfig { mocked_exchange: ex.value, initial_state: UnindexedAccountSnapshot { exchange: ex.value, balances, instruments: vec![] }, latency_ms: 4, fees_percent: Decimal::ZERO };
                builder = builder.add_mock(config, HistoricalClock::new(ts(T0_MS))).map_err(|e| ("add-mock-failed".to_string(), format!("{e}")))?;
            }
            let execution = builder.build().init().await.map_err(|e| ("execution-init-failed".to_string(), format!("{e}")))?;
            let mut rx = execution.account_channel.rx;
            // everything that arrives within `ms` virtual milliseconds
            async fn drain(rx: &mut barter_integration::channel::UnboundedRx<AccountStreamEvent>, ms: u64) -> Vec<AccountStreamEvent> {
                let mut out = Vec::new();
                let end = tokio::time::Instant::now() + Duration::from_millis(ms);
                while let Ok(Some(ev)) = tokio::time::timeout_at(end, rx.rx.recv()).await {
                    out.push(ev);
                }
                out
            }
            // the initial account snapshot of every link carries that link's exchange index
            let initial = drain(&mut rx, 50).await;
            for (e, ex) in indexed.exchanges().iter().enumerate() {
                let snaps: Vec<_> = initial.iter().filter_map(|ev| match ev {
                    AccountStreamEvent::Item(AccountEvent { exchange, kind: AccountEventKind::Snapshot(s) }) if *exchange == ex.key => Some(s),
                    _ => None,
                }).collect();
                if snaps.len() != usize::from(mocked[e]) {
                    return Err(("initial-snapshot-count".to_string(), format!("{} initial account snapshots carry exchange index {e} ({}), its link is {}", snaps.len(), ex.value, if mocked[e] { "configured" } else { "absent" })));
                }
                for s in snaps {
                    let mut got: Vec<usize> = s.balances.iter().map(|b| b.asset.index()).collect();
                    let mut want: Vec<usize> = indexed.assets().iter().filter(|a| a.value.exchange == ex.value).map(|a| a.key.index()).collect();
                    got.sort();
                    want.sort();
                    if got != want || s.exchange != ex.key {
                        return Err(("initial-snapshot-assets".to_string(), format!("initial snapshot of exchange {e} ({}) lists asset indices {got:?}, that exchange's assets are {want:?}", ex.value)));
                    }
                }
            }
            let (mut routed, mut absent) = (0u32, 0u32);
            for (n, (sel, buy)) in case.probes.iter().enumerate() {
                let inst = &indexed.instruments()[(*sel as usize * indexed.instruments().len()) >> 16];
                let e = inst.value.exchange.key;
                let found = execution.execution_txs.find(&e);
                if !mocked[e.index()] {
                    absent += 1;
                    if found.is_ok() {
                        return Err(("link-for-data-only-exchange".to_string(), format!("exchange index {} ({}) has no execution link, yet the link table resolves it", e.index(), inst.value.exchange.value)));
                    }
                    continue;
                }
                let Ok(tx) = found else {
                    return Err(("link-missing".to_string(), format!("exchange index {} ({}) has a mock link, the link table does not resolve it", e.index(), inst.value.exchange.value)));
                };
                let key = OrderKey { exchange: e, instrument: inst.key, strategy: StrategyId::new("s"), cid: ClientOrderId::new(format!("p{n}")) };
                let request = OrderRequestOpen { key: key.clone(), state: RequestOpen { side: if *buy { Side::Buy } else { Side::Sell }, price: Decimal::from(10), quantity: Decimal::ONE, kind: OrderKind::Market, time_in_force: TimeInForce::ImmediateOrCancel } };
                if tx.send(ExecutionRequest::Open(request)).is_err() {
                    return Err(("link-closed".to_string(), format!("the execution link of exchange index {} does not accept requests", e.index())));
                }
                // response, or the manager's 1 s timeout, plus notifications
                let events = drain(&mut rx, 1200).await;
                routed += 1;
                let mut answered = 0;
                for ev in &events {
                    let AccountStreamEvent::Item(a) = ev else { continue };
                    if a.exchange != e {
                        return Err(("event-from-other-exchange".to_string(), format!("probe {n} for instrument {} on exchange index {}: event {a:?} carries exchange index {}", inst.key.index(), e.index(), a.exchange.index())));
                    }
                    match &a.kind {
                        AccountEventKind::OrderSnapshot(s) => {
                            answered += 1;
                            if s.0.key != key {
                                return Err(("response-key".to_string(), format!("probe {n}: response key {:?}, request key {key:?}", s.0.key)));
                            }
                            if !matches!(s.0.state, OrderState::Active(_)) && !matches!(s.0.state, OrderState::Inactive(barter_execution::order::state::InactiveOrderState::FullyFilled)) {
                                return Err(("request-not-executed".to_string(), format!("probe {n} (market order, ample balances) for instrument {} via the link of exchange index {}: {:?}", inst.key.index(), e.index(), s.0.state)));
                            }
                        }
                        AccountEventKind::Trade(t) if t.instrument != inst.key => {
                            return Err(("fill-for-other-instrument".to_string(), format!("probe {n} for instrument {}: fill reported for instrument {}", inst.key.index(), t.instrument.index())));
                        }
                        AccountEventKind::BalanceSnapshot(b) => {
                            let spent = if *buy { inst.value.underlying.quote } else { inst.value.underlying.base };
                            if b.0.asset != spent {
                                return Err(("balance-for-other-asset".to_string(), format!("probe {n} for instrument {} ({}): balance update for asset index {}, the spent asset is {}", inst.key.index(), if *buy { "buy" } else { "sell" }, b.0.asset.index(), spent.index())));
                            }
                        }
                        _ => {}
                    }
                }
                if answered != 1 {
                    return Err(("request-unanswered".to_string(), format!("probe {n} for instrument {} sent through the link of exchange index {} ({}): {answered} order responses within 1.2 s (events {events:?})", inst.key.index(), e.index(), inst.value.exchange.value)));
                }
            }
            // ---- burst: the same probes again, all in flight together; different instruments share
            // one client order id (ids are unique per instrument only) --------------------------------
            let mut sent_keys: Vec<OrderKey> = Vec::new();
            let mut batch: Vec<OrderRequestOpen<ExchangeIndex, InstrumentIndex>> = Vec::new();
            let mut batch_exchanges = 0usize;
            for (n, (sel, buy)) in case.probes.iter().enumerate() {
                let inst = &indexed.instruments()[(*sel as usize * indexed.instruments().len()) >> 16];
                let e = inst.value.exchange.key;
                let Ok(tx) = execution.execution_txs.find(&e) else { continue };
                let shared = OrderKey { exchange: e, instrument: inst.key, strategy: StrategyId::new("s"), cid: ClientOrderId::new("burst") };
                let key = if sent_keys.contains(&shared) { OrderKey { cid: ClientOrderId::new(format!("burst-{n}")), ..shared } } else { shared };
                let request = OrderRequestOpen { key: key.clone(), state: RequestOpen { side: if *buy { Side::Buy } else { Side::Sell }, price: Decimal::from(10), quantity: Decimal::ONE, kind: OrderKind::Market, time_in_force: TimeInForce::ImmediateOrCancel } };
                if case.engine_batch {
                    batch.push(request);
                } else if tx.send(ExecutionRequest::Open(request)).is_err() {
                    return Err(("link-closed".to_string(), format!("the execution link of exchange index {} does not accept requests", e.index())));
                }
                sent_keys.push(key);
            }
            if case.engine_batch && !batch.is_empty() {
                use barter::{EngineEvent, engine::{Engine, Processor, command::Command, execution_tx::MultiExchangeTxMap}, risk::DefaultRiskManager, strategy::DefaultStrategy};
                use crate::props::{enginekit::TestClock, world::DefaultState};
                // an engine holding the very same links
                let links: MultiExchangeTxMap = indexed.exchanges().iter().map(|e| (e.value, execution.execution_txs.find(&e.key).ok().cloned())).collect();
                let mut engine: Engine<TestClock, DefaultState, MultiExchangeTxMap, DefaultStrategy<DefaultState>, DefaultRiskManager<DefaultState>> =
                    Engine::new(TestClock(ts(T0_MS)), world::engine_state(&indexed, TradingState::Disabled), links, DefaultStrategy::default(), DefaultRiskManager::default());
                batch_exchanges = { let mut v: Vec<usize> = batch.iter().map(|r| r.key.exchange.index()).collect(); v.sort(); v.dedup(); v.len() };
                let _ = engine.process(EngineEvent::<barter_data::event::DataKind>::Command(Command::SendOpenRequests(barter_integration::collection::one_or_many::OneOrMany::Many(batch))));
            }
            let events = drain(&mut rx, 1500).await;
            let mut answered: Vec<OrderKey> = Vec::new();
            let mut filled: Vec<InstrumentIndex> = Vec::new();
            for ev in &events {
                let AccountStreamEvent::Item(a) = ev else { continue };
                match &a.kind {
                    AccountEventKind::OrderSnapshot(s) => {
                        if a.exchange != s.0.key.exchange || !matches!(s.0.state, OrderState::Active(_) | OrderState::Inactive(barter_execution::order::state::InactiveOrderState::FullyFilled)) {
                            return Err(("burst-response".to_string(), format!("burst of {} requests in flight together: response {a:?}", sent_keys.len())));
                        }
                        answered.push(s.0.key.clone());
                    }
                    AccountEventKind::Trade(t) => {
                        if a.exchange != indexed.instruments()[t.instrument.index()].value.exchange.key {
                            return Err(("burst-fill-exchange".to_string(), format!("fill for instrument {} arrives with exchange index {}", t.instrument.index(), a.exchange.index())));
                        }
                        filled.push(t.instrument);
                    }
                    _ => {}
                }
            }
            let sort_keys = |mut v: Vec<OrderKey>| { v.sort_by_key(|k| (k.instrument.index(), k.cid.0.to_string())); v };
            let (want, got) = (sort_keys(sent_keys.clone()), sort_keys(answered));
            if want != got {
                return Err(("burst-responses".to_string(), format!("{} requests in flight together (instruments sharing the client order id 'burst'): responses carry keys {got:?}, requests were {want:?}", want.len())));
            }
            let mut want_fills: Vec<usize> = sent_keys.iter().map(|k| k.instrument.index()).collect();
            let mut got_fills: Vec<usize> = filled.iter().map(|i| i.index()).collect();
            want_fills.sort();
            got_fills.sort();
            if want_fills != got_fills {
                return Err(("burst-fills".to_string(), format!("burst: fills reported for instruments {got_fills:?}, orders were for {want_fills:?}")));
            }
            let shared_cid = sent_keys.iter().filter(|k| k.cid.0 == "burst").count() >= 2;
            Ok((routed, absent, shared_cid, batch_exchanges))
        });
        match outcome {
            Ok((routed, absent, shared_cid, batch_exchanges)) => {
                rep.class_if(shared_cid, "requests_in_flight_together_sharing_a_client_order_id");
                rep.class_if(batch_exchanges >= 2, "one_engine_command_spanning_two_or_more_links");
                let first_mocked = mocked.iter().position(|m| *m);
                rep.class_if(routed > 0, "request_routed_through_link");
                rep.class_if(absent > 0, "probe_for_data_only_exchange");
                rep.class_if(n_ex >= 2 && mocked.iter().any(|m| !*m) && mocked.iter().any(|m| *m), "mixed_traded_and_data_only_exchanges");
                rep.class_if(first_mocked.is_some_and(|f| f > 0), "data_only_exchange_before_traded_one");
                rep.nontrivial = routed > 0 && first_mocked.is_some_and(|f| f > 0);
            }
            Err((sig, msg)) => bad!(format!("routing:{sig}"), "{msg}"),
        }
        rep
    }
}

pub fn run(ctx: &mut Ctx) {
    ctx.rule = "index_name_translation: 1..9|14 instrument definitions over 1..4 exchanges (exchange instrument names such as BTCUSDT and asset names deliberately shared between exchanges); for EVERY exchange's map and EVERY global instrument/asset index (own and foreign): index->name, name->index, outbound request translation, inbound translation of order snapshot / rejected order / cancel response / trade / full snapshot (also one that lists the order under another instrument's entry) / balance, a name's other letter case must not translate, and application to EngineState. non-trivial = >= 2 exchanges and a probed own index lies on an exchange whose first global index is > 0 (global index != per-exchange position); distinct by hash of the case. link_routing: 2..6|10 spot instruments over 2..4 exchanges, a generated subset of the exchanges gets a mock execution link (the rest are data-only); the layer is assembled with ExecutionBuilder and initialised on a paused runtime; every initial account snapshot must carry its own exchange index and asset indices; 1..5 market orders are sent through execution_txs.find(exchange index of the instrument) and the response, fill and balance events must come back with that exchange index / instrument index / spent asset index; a data-only exchange index must not resolve; finally the same orders are sent again all at once (in flight together, different instruments sharing one client order id; in half of the cases as ONE SendOpenRequests command processed by an Engine holding the same links) and the responses / fills must carry exactly the requests' keys. non-trivial = a request routed while a data-only exchange precedes the traded one in index order.".into();
    ctx.assumptions = vec![
        "exchange-side instrument and asset names are unique inside one exchange".into(),
        "unique internal instrument names; one exchange name per (exchange, internal asset name)".into(),
    ];
    ctx.require_class::<IndexNameTranslation>("probed_index_on_exchange_not_starting_at_zero");
    ctx.run_regressions::<IndexNameTranslation>();
    ctx.run::<IndexNameTranslation>(ctx.tier.pick(60_000, 800_000));
    ctx.require_class::<LinkRouting>("data_only_exchange_before_traded_one");
    ctx.run_regressions::<LinkRouting>();
    ctx.run::<LinkRouting>(ctx.tier.pick(8_000, 120_000));
}

pub fn replay(ctx: &mut Ctx, doc: &Value) -> bool {
    ctx.replay::<IndexNameTranslation>(doc) || ctx.replay::<LinkRouting>(doc)
}
