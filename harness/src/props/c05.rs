//! C05 — Local L2 order book equals a price->amount map after any event sequence.
//!
//! Checks:
//!  * `book_model`   : `OrderBook::update` in lock-step with two `BTreeMap<Decimal,Decimal>`.
//!  * `book_manager` : `OrderBookL2Manager::run` over a generated `MarketStreamEvent` stream
//!                     (single and multi maps, reconnect notices, unconfigured instruments).
//!  * exhaustive sub-space of `book_model` (3 prices x {0,1,2} amounts x 2 sides, short lengths).

use crate::framework::{CaseReport, Check, Ctx, Tier};
use crate::props::gens::{rescaled, ts, T0_MS};
use crate::ensure;
use barter_data::{
    books::{
        Level, OrderBook,
        manager::OrderBookL2Manager,
        map::{OrderBookMap, OrderBookMapMulti, OrderBookMapSingle},
    },
    event::MarketEvent,
    streams::consumer::MarketStreamEvent,
    subscription::book::OrderBookEvent,
};
use barter_instrument::exchange::ExchangeId;
use fnv::FnvHashMap;
use parking_lot::RwLock;
use proptest::prelude::*;
use rust_decimal::Decimal;
use serde::{Deserialize, Serialize};
use serde_json::Value;
use std::{collections::BTreeMap, sync::Arc};

#[derive(Debug, Clone, Serialize, Deserialize, PartialEq)]
pub struct Ev {
    pub snapshot: bool,
    pub seq: u64,
    pub time_ms: Option<i64>,
    pub bids: Vec<(Decimal, Decimal)>,
    pub asks: Vec<(Decimal, Decimal)>,
}

impl Ev {
    pub fn to_event(&self) -> OrderBookEvent {
        let book = OrderBook::new(
            self.seq,
            self.time_ms.map(ts),
            self.bids.iter().map(|(p, a)| Level::new(*p, *a)),
            self.asks.iter().map(|(p, a)| Level::new(*p, *a)),
        );
        if self.snapshot {
            OrderBookEvent::Snapshot(book)
        } else {
            OrderBookEvent::Update(book)
        }
    }
}

fn price() -> impl Strategy<Value = Decimal> {
    prop_oneof![
        // small grid: collisions, front/middle/back inserts are common; several representations
        8 => (1i64..=12, 0u32..=2).prop_map(|(i, extra)| rescaled(Decimal::new(i * 5, 1), extra)),
        1 => (1i64..=1_000_000_000, 0u32..=8).prop_map(|(m, s)| Decimal::new(m, s)),
    ]
}

fn amount() -> impl Strategy<Value = Decimal> {
    prop_oneof![
        35 => (0u32..=3).prop_map(|s| Decimal::new(0, s)),
        65 => (1i64..=5000, 0u32..=3).prop_map(|(m, s)| Decimal::new(m, s)),
    ]
}

fn levels_update() -> impl Strategy<Value = Vec<(Decimal, Decimal)>> {
    prop::collection::vec((price(), amount()), 0..7)
}

fn levels_snapshot() -> impl Strategy<Value = Vec<(Decimal, Decimal)>> {
    // well-formed venue snapshot: unique prices, positive amounts, arbitrary order
    prop::collection::btree_map(1i64..=12, (1i64..=5000, 0u32..=3, 0u32..=2), 0..8)
        .prop_map(|m| {
            m.into_iter()
                .map(|(i, (am, sc, extra))| (rescaled(Decimal::new(i * 5, 1), extra), Decimal::new(am, sc)))
                .collect::<Vec<_>>()
        })
        .prop_shuffle()
}

pub fn ev() -> impl Strategy<Value = Ev> {
    prop_oneof![
        85 => (any::<u64>(), prop::option::of(0i64..10_000_000), levels_update(), levels_update())
            .prop_map(|(seq, t, bids, asks)| Ev { snapshot: false, seq, time_ms: t.map(|t| T0_MS + t), bids, asks }),
        15 => (any::<u64>(), prop::option::of(0i64..10_000_000), levels_snapshot(), levels_snapshot())
            .prop_map(|(seq, t, bids, asks)| Ev { snapshot: true, seq, time_ms: t.map(|t| T0_MS + t), bids, asks }),
    ]
}

#[derive(Debug, Clone, Serialize, Deserialize)]
pub struct BookCase {
    pub events: Vec<Ev>,
}

/// Reference model: two price->amount maps.
#[derive(Debug, Clone, Default)]
pub struct Model {
    pub bids: BTreeMap<Decimal, Decimal>,
    pub asks: BTreeMap<Decimal, Decimal>,
    pub seq: u64,
    pub time_ms: Option<i64>,
}

#[derive(Debug, Default)]
pub struct Shape {
    pub deletes_present: u32,
    pub dup_in_update: u32,
    pub inner_insert: u32,
    pub delete_absent: u32,
    pub bid_touched: bool,
    pub ask_touched: bool,
}

/// Apply one side of an update to the model. For prices that occur more than once inside one
/// update the returned map lists the allowed outcomes (None = absent): the last write for lists of
/// up to 20 levels, any of the writes for longer lists (see below).
fn apply_side(
    map: &mut BTreeMap<Decimal, Decimal>,
    levels: &[(Decimal, Decimal)],
    shape: &mut Shape,
) -> BTreeMap<Decimal, Vec<Option<Decimal>>> {
    let mut count: BTreeMap<Decimal, u32> = BTreeMap::new();
    for (p, _) in levels {
        *count.entry(*p).or_default() += 1;
    }
    let mut ambiguous: BTreeMap<Decimal, Vec<Option<Decimal>>> = BTreeMap::new();
    // The level list of an update is a sequence of writes: for a price named several times the
    // LAST write counts (set-then-delete deletes). The connector sorts the list by price before
    // applying it; up to SMALL_SORT levels that sort keeps the list order among equal prices, so
    // the sequential reading is what the book must show. Beyond that the unstable sort may reorder
    // equal prices and any of the writes is accepted.
    const SMALL_SORT: usize = 20;
    for (p, a) in levels {
        if count[p] > 1 {
            let outcome = if a.is_zero() { None } else { Some(*a) };
            let e = ambiguous.entry(*p).or_default();
            if levels.len() <= SMALL_SORT {
                *e = vec![outcome];
            } else if !e.contains(&outcome) {
                e.push(outcome);
            }
            continue;
        }
        if a.is_zero() {
            if map.remove(p).is_some() {
                shape.deletes_present += 1;
            } else {
                shape.delete_absent += 1;
            }
        } else {
            let inner = !map.contains_key(p)
                && map.range(..*p).next().is_some()
                && map.range(*p..).next().is_some();
            if inner {
                shape.inner_insert += 1;
            }
            map.insert(*p, *a);
        }
    }
    if !ambiguous.is_empty() {
        shape.dup_in_update += 1;
    }
    ambiguous
}

fn levels_of(map: &BTreeMap<Decimal, Decimal>, descending: bool) -> Vec<(Decimal, Decimal)> {
    if descending {
        map.iter().rev().map(|(p, a)| (*p, *a)).collect()
    } else {
        map.iter().map(|(p, a)| (*p, *a)).collect()
    }
}

fn real_levels(levels: &[Level]) -> Vec<(Decimal, Decimal)> {
    levels.iter().map(|l| (l.price, l.amount)).collect()
}

/// Reconcile ambiguous prices: real value must be one of the allowed outcomes; the model adopts it.
fn reconcile(
    side: &str,
    map: &mut BTreeMap<Decimal, Decimal>,
    real: &[Level],
    ambiguous: &BTreeMap<Decimal, Vec<Option<Decimal>>>,
) -> Result<(), String> {
    for (p, allowed) in ambiguous {
        let held: Vec<Decimal> = real.iter().filter(|l| l.price == *p).map(|l| l.amount).collect();
        if held.len() > 1 {
            return Err(format!("{side}: price {p} present {} times", held.len()));
        }
        let outcome = held.first().copied();
        if !allowed.contains(&outcome) {
            return Err(format!(
                "{side}: price {p} occurs several times in one update with outcomes {allowed:?} but book holds {outcome:?}"
            ));
        }
        match outcome {
            Some(a) => {
                map.insert(*p, a);
            }
            None => {
                map.remove(p);
            }
        }
    }
    Ok(())
}

/// Compare a real book against the model (all observable accessors).
pub fn compare(book: &OrderBook, m: &Model, step: usize) -> Result<(), (String, String)> {
    let rb = real_levels(book.bids().levels());
    let ra = real_levels(book.asks().levels());
    let mb = levels_of(&m.bids, true);
    let ma = levels_of(&m.asks, false);
    if rb != mb {
        return Err(("bids-differ".into(), format!("after event {step}: bids {rb:?} != model {mb:?}")));
    }
    if ra != ma {
        return Err(("asks-differ".into(), format!("after event {step}: asks {ra:?} != model {ma:?}")));
    }
    // strictness (implied by equality with a map, asserted separately so a model slip cannot hide it)
    if !rb.windows(2).all(|w| w[0].0 > w[1].0) {
        return Err(("bids-not-strictly-descending".into(), format!("after event {step}: {rb:?}")));
    }
    if !ra.windows(2).all(|w| w[0].0 < w[1].0) {
        return Err(("asks-not-strictly-ascending".into(), format!("after event {step}: {ra:?}")));
    }
    if book.sequence != m.seq {
        return Err(("sequence".into(), format!("after event {step}: sequence {} != last event's {}", book.sequence, m.seq)));
    }
    if book.time_engine != m.time_ms.map(ts) {
        return Err(("time-engine".into(), format!("after event {step}: time_engine {:?} != last event's {:?}", book.time_engine, m.time_ms)));
    }
    // best levels / mid prices from the model
    let bb = mb.first().copied();
    let ba = ma.first().copied();
    let exp_mid = match (bb, ba) {
        (Some(b), Some(a)) => Some((b.0 + a.0) / Decimal::TWO),
        (Some(b), None) => Some(b.0),
        (None, Some(a)) => Some(a.0),
        (None, None) => None,
    };
    if book.mid_price() != exp_mid {
        return Err(("mid-price".into(), format!("after event {step}: mid {:?} != {:?}", book.mid_price(), exp_mid)));
    }
    let exp_vw = match (bb, ba) {
        (Some(b), Some(a)) => Some((b.0 * a.1 + a.0 * b.1) / (b.1 + a.1)),
        (Some(b), None) => Some(b.0),
        (None, Some(a)) => Some(a.0),
        (None, None) => None,
    };
    if book.volume_weighed_mid_price() != exp_vw {
        return Err(("vw-mid-price".into(), format!("after event {step}: vw mid {:?} != {:?}", book.volume_weighed_mid_price(), exp_vw)));
    }
    let all = mb.len().max(ma.len()) + 1;
    for d in [0usize, 1, 2, all] {
        let snap = book.snapshot(d);
        let sb = real_levels(snap.bids().levels());
        let sa = real_levels(snap.asks().levels());
        let eb: Vec<_> = mb.iter().take(d).copied().collect();
        let ea: Vec<_> = ma.iter().take(d).copied().collect();
        if sb != eb || sa != ea || snap.sequence != m.seq || snap.time_engine != m.time_ms.map(ts) {
            return Err((
                "depth-snapshot".into(),
                format!("after event {step}: snapshot({d}) = bids {sb:?} asks {sa:?} seq {} expected bids {eb:?} asks {ea:?} seq {}", snap.sequence, m.seq),
            ));
        }
    }
    Ok(())
}

/// Step the model with one event, given the real book *after* the event (for ambiguity reconciliation).
pub fn step_model(m: &mut Model, e: &Ev, book_after: &OrderBook, shape: &mut Shape) -> Result<(), (String, String)> {
    m.seq = e.seq;
    m.time_ms = e.time_ms;
    if e.snapshot {
        m.bids = e.bids.iter().copied().collect();
        m.asks = e.asks.iter().copied().collect();
    } else {
        if !e.bids.is_empty() {
            shape.bid_touched = true;
        }
        if !e.asks.is_empty() {
            shape.ask_touched = true;
        }
        let amb_b = apply_side(&mut m.bids, &e.bids, shape);
        let amb_a = apply_side(&mut m.asks, &e.asks, shape);
        reconcile("bids", &mut m.bids, book_after.bids().levels(), &amb_b)
            .map_err(|e| ("duplicate-price-outcome".to_string(), e))?;
        reconcile("asks", &mut m.asks, book_after.asks().levels(), &amb_a)
            .map_err(|e| ("duplicate-price-outcome".to_string(), e))?;
    }
    Ok(())
}

fn classify(rep: &mut CaseReport, n_events: usize, shape: &Shape) {
    rep.class_if(shape.deletes_present > 0, "delete_present");
    rep.class_if(shape.delete_absent > 0, "delete_absent");
    rep.class_if(shape.dup_in_update > 0, "dup_price_in_update");
    rep.class_if(shape.inner_insert > 0, "insert_strictly_inside");
    rep.class_if(shape.bid_touched && shape.ask_touched, "both_sides");
    rep.nontrivial = n_events >= 3
        && shape.deletes_present > 0
        && (shape.dup_in_update > 0 || shape.inner_insert > 0)
        && shape.bid_touched
        && shape.ask_touched;
}

pub struct BookModel;

impl Check for BookModel {
    type Case = BookCase;
    const NAME: &'static str = "book_model";

    fn normalise(mut case: BookCase) -> BookCase {
        for e in &mut case.events {
            e.time_ms = e.time_ms.map(|t| T0_MS + t.rem_euclid(10_000_000));
            if e.snapshot {
                // well-formed venue snapshot: unique prices, positive amounts
                for side in [&mut e.bids, &mut e.asks] {
                    let mut seen: Vec<Decimal> = Vec::new();
                    side.retain(|(p, a)| {
                        let keep = !a.is_zero() && !seen.contains(p);
                        if keep {
                            seen.push(*p);
                        }
                        keep
                    });
                }
            }
        }
        case
    }


    fn strategy(tier: Tier) -> BoxedStrategy<BookCase> {
        let max = match tier {
            Tier::Quick => 40,
            Tier::Thorough => 80,
        };
        prop::collection::vec(ev(), 0..max).prop_map(|events| BookCase { events }).boxed()
    }

    fn eval(case: &BookCase) -> CaseReport {
        let mut rep = CaseReport::new();
        let mut book = OrderBook::default();
        let mut model = Model::default();
        let mut shape = Shape::default();
        // initial book: empty on both sides
        if let Err((sig, msg)) = compare(&book, &model, 0) {
            rep.fail(sig, msg);
            return rep;
        }
        for (i, e) in case.events.iter().enumerate() {
            book.update(e.to_event());
            if let Err((sig, msg)) = step_model(&mut model, e, &book, &mut shape) {
                rep.fail(sig, format!("event {}: {msg}", i + 1));
                return rep;
            }
            if let Err((sig, msg)) = compare(&book, &model, i + 1) {
                rep.fail(sig, msg);
                return rep;
            }
        }
        rep.class_if(case.events.iter().any(|e| e.snapshot), "has_snapshot");
        classify(&mut rep, case.events.len(), &shape);
        rep
    }
}

// ---------------------------------------------------------------------------------------------
// Manager layer
// ---------------------------------------------------------------------------------------------

#[derive(Debug, Clone, Serialize, Deserialize)]
pub enum MItem {
    /// event for instrument key `k`
    Item { key: u8, ev: Ev },
    Reconnecting,
}

#[derive(Debug, Clone, Serialize, Deserialize)]
pub struct ManagerCase {
    /// number of configured instruments (keys 0..configured); keys >= configured are unconfigured
    pub configured: u8,
    pub single: bool,
    pub items: Vec<MItem>,
    /// a reader (another thread) holds the read lock of the item's book while the manager is
    /// handed the item at these positions (selectors into `items`); at most two are used
    #[serde(default)]
    pub reader_holds_at: Vec<u16>,
}

pub struct BookManager;

/// `holds[i] = Some(book)`: while item i is handed to the manager another thread holds a read lock
/// on that book (taken before the item is yielded, released 2 ms later). The manager must wait for
/// the lock and apply the events in stream order all the same.
fn run_manager<M>(map: M, items: Vec<MarketStreamEvent<u8, OrderBookEvent>>, holds: Vec<Option<Arc<RwLock<OrderBook>>>>)
where
    M: OrderBookMap<Key = u8>,
{
    use futures::StreamExt;
    let mut reader: Option<std::thread::JoinHandle<()>> = None;
    let stream = futures::stream::iter(items.into_iter().zip(holds)).map(move |(item, hold)| {
        // the reader of the previous item has let go before the next item is handed over
        if let Some(r) = reader.take() {
            let _ = r.join();
        }
        if let Some(book) = hold {
            let (tx, rx) = std::sync::mpsc::channel();
            reader = Some(std::thread::spawn(move || {
                let guard = book.read();
                let _ = tx.send(());
                std::thread::sleep(std::time::Duration::from_millis(2));
                drop(guard);
            }));
            let _ = rx.recv();
        }
        item
    });
    let manager = OrderBookL2Manager { stream, books: map };
    futures::executor::block_on(manager.run());
}

impl Check for BookManager {
    type Case = ManagerCase;
    const NAME: &'static str = "book_manager";

    fn strategy(_tier: Tier) -> BoxedStrategy<ManagerCase> {
        (1u8..=3, any::<bool>(), prop::collection::vec(
            prop_oneof![
                9 => (0u8..4, ev()).prop_map(|(key, ev)| MItem::Item { key, ev }),
                1 => Just(MItem::Reconnecting),
            ],
            0..30,
        ), prop_oneof![9 => Just(vec![]), 1 => prop::collection::vec(any::<u16>(), 1..3)])
            .prop_map(|(configured, single, items, reader_holds_at)| ManagerCase {
                configured: if single { 1 } else { configured },
                single,
                items,
                reader_holds_at,
            })
            .boxed()
    }

    fn eval(case: &ManagerCase) -> CaseReport {
        let mut rep = CaseReport::new();
        let books: Vec<Arc<RwLock<OrderBook>>> = (0..case.configured)
            .map(|_| Arc::new(RwLock::new(OrderBook::default())))
            .collect();
        let stream_items: Vec<MarketStreamEvent<u8, OrderBookEvent>> = case
            .items
            .iter()
            .map(|it| match it {
                MItem::Reconnecting => MarketStreamEvent::Reconnecting(ExchangeId::BinanceSpot),
                MItem::Item { key, ev } => MarketStreamEvent::Item(MarketEvent {
                    time_exchange: ts(T0_MS),
                    time_received: ts(T0_MS),
                    exchange: ExchangeId::BinanceSpot,
                    instrument: *key,
                    kind: ev.to_event(),
                }),
            })
            .collect();
        let mut holds: Vec<Option<Arc<RwLock<OrderBook>>>> = vec![None; case.items.len()];
        let mut held_updates = 0;
        for sel in case.reader_holds_at.iter().take(2) {
            if case.items.is_empty() {
                break;
            }
            let at = (*sel as usize * case.items.len()) >> 16;
            if let MItem::Item { key, .. } = &case.items[at] {
                if *key < case.configured {
                    holds[at] = Some(books[*key as usize].clone());
                    // a later event for the same book exists: its order relative to this one matters
                    if case.items[at + 1..].iter().any(|i| matches!(i, MItem::Item { key: k, .. } if k == key)) {
                        held_updates += 1;
                    }
                }
            }
        }
        if case.single {
            run_manager(OrderBookMapSingle::new(0u8, books[0].clone()), stream_items, holds);
        } else {
            let mut map: FnvHashMap<u8, Arc<RwLock<OrderBook>>> = FnvHashMap::default();
            for (k, b) in books.iter().enumerate() {
                map.insert(k as u8, b.clone());
            }
            run_manager(OrderBookMapMulti::new(map), stream_items, holds);
        }
        // oracle: each configured book == a book fed directly with exactly its own events;
        // and == the map model
        let mut unconfigured = 0;
        let mut reconnects = 0;
        for k in 0..case.configured {
            let mut direct = OrderBook::default();
            let mut model = Model::default();
            let mut shape = Shape::default();
            let mut n = 0;
            for it in &case.items {
                if let MItem::Item { key, ev } = it {
                    if *key == k {
                        direct.update(ev.to_event());
                        n += 1;
                        if let Err((sig, msg)) = step_model(&mut model, ev, &direct, &mut shape) {
                            rep.fail(sig, msg);
                            return rep;
                        }
                    }
                }
            }
            let held = books[k as usize].read().clone();
            ensure!(rep, held == direct, "manager-book-differs",
                "instrument {k}: book held by the manager {held:?} differs from its own events applied in order {direct:?}");
            if let Err((sig, msg)) = compare(&held, &model, n) {
                rep.fail(format!("manager-{sig}"), format!("instrument {k}: {msg}"));
                return rep;
            }
        }
        for it in &case.items {
            match it {
                MItem::Reconnecting => reconnects += 1,
                MItem::Item { key, .. } if *key >= case.configured => unconfigured += 1,
                _ => {}
            }
        }
        rep.class_if(case.single, "single_map");
        rep.class_if(!case.single, "multi_map");
        rep.class_if(unconfigured > 0, "unconfigured_instrument_event");
        rep.class_if(reconnects > 0, "reconnect_notice");
        rep.class_if(held_updates > 0, "reader_holds_the_book_while_an_update_arrives");
        rep.nontrivial = case.items.len() >= 4 && unconfigured > 0 && reconnects > 0;
        rep
    }
}

// ---------------------------------------------------------------------------------------------
// Exhaustive small scope
// ---------------------------------------------------------------------------------------------

fn small_alphabet() -> Vec<Ev> {
    let mut out = Vec::new();
    for side in 0..2 {
        for p in 1..=3i64 {
            for a in 0..=2i64 {
                let lv = vec![(Decimal::new(p, 0), Decimal::new(a, 0))];
                out.push(Ev {
                    snapshot: false,
                    seq: (p * 10 + a) as u64,
                    time_ms: None,
                    bids: if side == 0 { lv.clone() } else { vec![] },
                    asks: if side == 1 { lv } else { vec![] },
                });
            }
        }
    }
    out
}

fn enumerate(max_len: usize) -> impl Iterator<Item = BookCase> {
    let alpha = small_alphabet();
    let n = alpha.len();
    (0..=max_len).flat_map(move |len| {
        let alpha = alpha.clone();
        let total = n.pow(len as u32);
        (0..total).map(move |mut idx| {
            let mut events = Vec::with_capacity(len);
            for _ in 0..len {
                events.push(alpha[idx % n].clone());
                idx /= n;
            }
            BookCase { events }
        })
    })
}

pub fn run(ctx: &mut Ctx) {
    ctx.rule = "book_model: vec(event,0..40|80) of OrderBookEvent::{Update 85%,Snapshot 15%}; update level lists unsorted, prices from a 12-point grid in 3 decimal representations (+ wild prices), 35% zero amounts; non-trivial = >=3 events AND >=1 delete of a present level AND (>=1 price repeated inside one update OR >=1 insert strictly inside a side) AND both sides touched; distinct by hash of the event list. book_manager: stream of Item/Reconnecting over configured and unconfigured instrument keys through OrderBookL2Manager::run (single and multi map); in a tenth of the cases another thread holds the read lock of a book for 2 ms exactly while an update for it is handed to the manager and lets go before the next item is handed over (the only place where the harness does not own the schedule: the manager must wait and keep stream order); non-trivial = >=4 items with an unconfigured-instrument event and a reconnect notice. Exhaustive: every sequence up to the stated length over the 18-letter alphabet {bid,ask} x {price 1,2,3} x {amount 0,1,2}.".into();
    ctx.assumptions = vec![
        "snapshots are well-formed venue snapshots (unique prices, positive amounts) as every connector passes to OrderBook::new".into(),
        "a price named more than once inside ONE update is a sequence of writes, the last one counts; for level lists longer than 20 the connector's unstable sort may reorder equal prices, there any of the writes is accepted".into(),
        "amounts and prices are non-negative decimals".into(),
    ];
    ctx.run_regressions::<BookModel>();
    ctx.run_regressions::<BookManager>();
    ctx.run::<BookModel>(ctx.tier.pick(150_000, 2_500_000));
    ctx.run::<BookManager>(ctx.tier.pick(40_000, 500_000));
    let max_len = ctx.tier.pick(3, 4) as usize;
    ctx.extra.insert("exhaustive_max_len".into(), serde_json::json!(max_len));
    ctx.run_enumerated::<BookModel>("exhaustive_small_scope", enumerate(max_len));
}

pub fn replay(ctx: &mut Ctx, doc: &Value) -> bool {
    ctx.replay::<BookModel>(doc) || ctx.replay::<BookManager>(doc)
}
