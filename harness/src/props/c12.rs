//! C12 — Reconnecting streams deliver every item once, in order, with one notice per drop.
//!
//! Check `reconnect_script`: a generated script of connection outcomes (init ok with a finite
//! item / error sequence and virtual delays | init failure) and a backoff policy is played through
//! `init_reconnecting_stream` . `with_reconnect_backoff` . `with_termination_on_error` .
//! `with_reconnection_events` (. `with_error_handler`, `forward_to`) exactly as
//! `init_market_stream` composes them, on tokio's paused clock. Output items and their virtual
//! instants, the instants of every init attempt and the non-termination of the stream are compared
//! with a reference interpretation of the script.
//! Check `merge_order`: two timed item scripts with distinct instants through `merge`.

use crate::framework::{CaseReport, Check, Ctx, Tier};
use barter_data::streams::{
    consumer::StreamKey,
    reconnect::{
        Event,
        stream::{ReconnectingStream, ReconnectionBackoffPolicy, init_reconnecting_stream},
    },
};
use barter_instrument::exchange::ExchangeId;
use barter_integration::{channel::mpsc_unbounded, stream::merge::merge};
use futures::{Stream, StreamExt};
use proptest::prelude::*;
use serde::{Deserialize, Serialize};
use serde_json::Value;
use std::{
    collections::VecDeque,
    sync::{Arc, Mutex},
    time::Duration,
};
use tokio::time::Instant;

#[derive(Debug, Clone, Copy, PartialEq, Eq, Serialize, Deserialize)]
pub enum Item {
    Value(u32),
    /// non-terminal error: passed through, connection continues
    SoftError(u32),
    /// terminal error: ends the connection
    TerminalError(u32),
}

#[derive(Debug, Clone, PartialEq, Eq, Serialize, Deserialize)]
pub enum Outcome {
    /// initialisation takes `init_ms`, then succeeds with items (delay before each item in ms)
    Connected { init_ms: u16, items: Vec<(u16, Item)> },
    /// initialisation takes `init_ms`, then fails
    InitFail { init_ms: u16 },
}

#[derive(Debug, Clone, Serialize, Deserialize)]
pub struct ReconnectCase {
    pub initial_ms: u16,
    pub multiplier: u8,
    /// max = initial + extra (>= initial)
    pub max_extra_ms: u32,
    pub script: Vec<Outcome>,
    /// 0: plain composition, 1: + with_error_handler, 2: + with_error_handler + forward_to
    pub mode: u8,
}

#[derive(Debug, Clone, PartialEq, Eq)]
pub struct TestError {
    pub id: u32,
    pub terminal: bool,
}

type Out = Event<ExchangeId, Result<u32, TestError>>;

#[derive(Debug, Clone, PartialEq, Eq)]
enum Seen {
    Value(u32),
    SoftError(u32),
    Reconnecting,
}

struct Reference {
    attempts: Vec<u64>,
    output: Vec<(u64, Seen)>,
    handled_errors: Vec<u32>,
    first_init_fails: bool,
    max_gap_reached: bool,
    consecutive_failures_max: u32,
    connections: u32,
}

fn reference(case: &ReconnectCase, handler: bool) -> Reference {
    let initial = case.initial_ms.max(1) as u64;
    let max = initial + case.max_extra_ms as u64;
    let mult = case.multiplier.max(1) as u64;
    let mut r = Reference { attempts: vec![], output: vec![], handled_errors: vec![], first_init_fails: false, max_gap_reached: false, consecutive_failures_max: 0, connections: 0 };
    let mut t = 0u64;
    let mut backoff = initial;
    let mut consecutive = 0u32;
    for (k, o) in case.script.iter().enumerate() {
        r.attempts.push(t);
        match o {
            Outcome::InitFail { init_ms } => {
                t += *init_ms as u64;
                if k == 0 {
                    r.first_init_fails = true;
                    return r;
                }
                consecutive += 1;
                r.consecutive_failures_max = r.consecutive_failures_max.max(consecutive);
                if backoff == max && consecutive >= 2 {
                    r.max_gap_reached = true;
                }
                t += backoff;
                backoff = (backoff * mult).min(max);
            }
            Outcome::Connected { init_ms, items } => {
                t += *init_ms as u64;
                backoff = initial;
                consecutive = 0;
                r.connections += 1;
                for (d, item) in items {
                    t += *d as u64;
                    match item {
                        Item::Value(v) => r.output.push((t, Seen::Value(*v))),
                        Item::SoftError(e) => {
                            if handler {
                                r.handled_errors.push(*e);
                            } else {
                                r.output.push((t, Seen::SoftError(*e)));
                            }
                        }
                        Item::TerminalError(_) => break,
                    }
                }
                r.output.push((t, Seen::Reconnecting));
            }
        }
    }
    r.attempts.push(t); // the attempt after the script: pends forever
    r
}

type ConnStream = std::pin::Pin<Box<dyn Stream<Item = Result<u32, TestError>> + Send>>;

fn connection(items: Vec<(u16, Item)>) -> ConnStream {
    Box::pin(futures::stream::iter(items).then(|(d, item)| async move {
        if d > 0 {
            tokio::time::sleep(Duration::from_millis(d as u64)).await;
        }
        match item {
            Item::Value(v) => Ok(v),
            Item::SoftError(id) => Err(TestError { id, terminal: false }),
            Item::TerminalError(id) => Err(TestError { id, terminal: true }),
        }
    }))
}

pub struct ReconnectScript;

fn item() -> impl Strategy<Value = Item> {
    prop_oneof![7 => (0u32..1000).prop_map(Item::Value), 2 => (0u32..1000).prop_map(Item::SoftError), 1 => (0u32..1000).prop_map(Item::TerminalError)]
}

fn outcome() -> impl Strategy<Value = Outcome> {
    prop_oneof![
        5 => (prop_oneof![Just(0u16), 0u16..300], prop::collection::vec((prop_oneof![Just(0u16), 0u16..500], item()), 0..6)).prop_map(|(init_ms, items)| Outcome::Connected { init_ms, items }),
        5 => prop_oneof![Just(0u16), 0u16..300].prop_map(|init_ms| Outcome::InitFail { init_ms }),
    ]
}

impl Check for ReconnectScript {
    type Case = ReconnectCase;
    const NAME: &'static str = "reconnect_script";

    fn normalise(mut case: ReconnectCase) -> ReconnectCase {
        case.initial_ms = 1 + case.initial_ms % 4999;
        case.multiplier = 1 + case.multiplier % 10;
        case.max_extra_ms %= 2_000_000;
        case.script.truncate(48);
        for o in &mut case.script {
            match o {
                Outcome::Connected { init_ms, items } => {
                    *init_ms %= 300;
                    items.truncate(5);
                    for (d, _) in items.iter_mut() {
                        *d %= 500;
                    }
                }
                Outcome::InitFail { init_ms } => *init_ms %= 300,
            }
        }
        if case.script.is_empty() {
            case.script.push(Outcome::Connected { init_ms: 0, items: vec![(1, Item::Value(7))] });
        }
        case
    }

    fn strategy(tier: Tier) -> BoxedStrategy<ReconnectCase> {
        let max = if tier == Tier::Quick { 12 } else { 24 };
        // segments: a single outcome or a run of consecutive init failures (so growth and cap show)
        let segment = prop_oneof![
            6 => outcome().prop_map(|o| vec![o]),
            2 => (2usize..7, prop_oneof![Just(0u16), 0u16..100]).prop_map(|(n, init_ms)| vec![Outcome::InitFail { init_ms }; n]),
        ];
        (
            1u16..5000,
            1u8..=10,
            prop_oneof![Just(0u32), 0u32..20_000, 0u32..2_000_000],
            prop::bool::weighted(0.9),
            prop::collection::vec(segment, 1..max),
            0u8..3,
        )
            .prop_map(move |(initial_ms, multiplier, max_extra_ms, first_ok, segments, mode)| {
                let mut script: Vec<Outcome> = segments.into_iter().flatten().collect();
                script.truncate(2 * max);
                if first_ok {
                    script.insert(0, Outcome::Connected { init_ms: 0, items: vec![(1, Item::Value(7))] });
                }
                ReconnectCase { initial_ms, multiplier, max_extra_ms, script, mode }
            })
            .boxed()
    }

    fn eval(case: &ReconnectCase) -> CaseReport {
        let mut rep = CaseReport::new();
        macro_rules! bad {
            ($sig:expr, $($fmt:tt)+) => {{ rep.fail($sig, format!($($fmt)+)); return rep; }};
        }
        let handler = case.mode >= 1;
        let forward = case.mode >= 2;
        let expect = reference(case, handler);
        let policy = ReconnectionBackoffPolicy { backoff_ms_initial: case.initial_ms.max(1) as u64, backoff_multiplier: case.multiplier.max(1), backoff_ms_max: case.initial_ms.max(1) as u64 + case.max_extra_ms as u64 };
        let key = StreamKey::new("verif", ExchangeId::Mock, None);

        let script: Arc<Mutex<VecDeque<Outcome>>> = Arc::new(Mutex::new(case.script.iter().cloned().collect()));
        let attempts: Arc<Mutex<Vec<u64>>> = Arc::new(Mutex::new(Vec::new()));
        let handled: Arc<Mutex<Vec<u32>>> = Arc::new(Mutex::new(Vec::new()));

        let rt = tokio::runtime::Builder::new_current_thread().enable_time().start_paused(true).build().expect("runtime");
        // virtual horizon far beyond anything the script can schedule
        let horizon = Duration::from_secs(48 * 3600);
        type Collected = (Vec<(u64, Seen)>, bool, bool);
        let result: Result<Option<Collected>, String> = rt.block_on(async {
            let start = Instant::now();
            let (s2, a2) = (script.clone(), attempts.clone());
            let init = move || {
                let next = s2.lock().unwrap().pop_front();
                a2.lock().unwrap().push(start.elapsed().as_millis() as u64);
                async move {
                    match next {
                        None => std::future::pending::<Result<ConnStream, TestError>>().await,
                        Some(Outcome::InitFail { init_ms }) => {
                            tokio::time::sleep(Duration::from_millis(init_ms as u64)).await;
                            Err(TestError { id: u32::MAX, terminal: false })
                        }
                        Some(Outcome::Connected { init_ms, items }) => {
                            tokio::time::sleep(Duration::from_millis(init_ms as u64)).await;
                            Ok(connection(items))
                        }
                    }
                }
            };
            let base = match init_reconnecting_stream(init).await {
                Ok(s) => s,
                Err(_) => return Ok(None),
            };
            let composed = base
                .with_reconnect_backoff(policy.clone(), key)
                .with_termination_on_error(|e: &TestError| e.terminal, key)
                .with_reconnection_events(ExchangeId::Mock);

            let to_seen = |ev: Out| match ev {
                Event::Reconnecting(o) => {
                    assert_eq!(o, ExchangeId::Mock);
                    Seen::Reconnecting
                }
                Event::Item(Ok(v)) => Seen::Value(v),
                Event::Item(Err(e)) => Seen::SoftError(e.id),
            };
            let mut seen: Vec<(u64, Seen)> = Vec::new();
            let mut ended = false;
            let mut terminal_leaked = false;
            if !handler {
                let mut st = Box::pin(composed);
                loop {
                    match tokio::time::timeout(horizon, st.next()).await {
                        Err(_) => break,
                        Ok(None) => {
                            ended = true;
                            break;
                        }
                        Ok(Some(ev)) => {
                            if let Event::Item(Err(e)) = &ev {
                                terminal_leaked |= e.terminal;
                            }
                            seen.push((start.elapsed().as_millis() as u64, to_seen(ev)));
                        }
                    }
                }
            } else {
                let h2 = handled.clone();
                let with_handler = composed.with_error_handler(move |e: TestError| h2.lock().unwrap().push(e.id));
                if !forward {
                    let mut st = Box::pin(with_handler);
                    loop {
                        match tokio::time::timeout(horizon, st.next()).await {
                            Err(_) => break,
                            Ok(None) => {
                                ended = true;
                                break;
                            }
                            Ok(Some(ev)) => seen.push((start.elapsed().as_millis() as u64, match ev {
                                Event::Reconnecting(_) => Seen::Reconnecting,
                                Event::Item(v) => Seen::Value(v),
                            })),
                        }
                    }
                } else {
                    let (tx, mut rx) = mpsc_unbounded::<Event<ExchangeId, u32>>();
                    let fwd = tokio::spawn(with_handler.forward_to(tx));
                    loop {
                        match tokio::time::timeout(horizon, rx.rx.recv()).await {
                            Err(_) => break,
                            Ok(None) => {
                                ended = true;
                                break;
                            }
                            Ok(Some(ev)) => seen.push((start.elapsed().as_millis() as u64, match ev {
                                Event::Reconnecting(_) => Seen::Reconnecting,
                                Event::Item(v) => Seen::Value(v),
                            })),
                        }
                    }
                    fwd.abort();
                }
            }
            Ok(Some((seen, ended, terminal_leaked)))
        });
        let collected = match result {
            Ok(c) => c,
            Err(e) => bad!("harness", "{e}"),
        };
        let attempts = attempts.lock().unwrap().clone();
        let Some((seen, ended, terminal_leaked)) = collected else {
            if !expect.first_init_fails {
                bad!("first-init-error", "init_reconnecting_stream returned Err although the first initialisation succeeds");
            }
            rep.class("first_init_fails");
            return rep;
        };
        if expect.first_init_fails {
            bad!("first-init-error-swallowed", "the first initialisation fails but init_reconnecting_stream returned a stream");
        }
        if ended {
            bad!("stream-ended", "the reconnecting stream ended by itself after {:?}", seen.last());
        }
        if terminal_leaked {
            bad!("terminal-error-delivered", "a terminal error was delivered as an item: {seen:?}");
        }
        let got_items: Vec<&Seen> = seen.iter().map(|(_, s)| s).collect();
        let want_items: Vec<&Seen> = expect.output.iter().map(|(_, s)| s).collect();
        if got_items != want_items {
            bad!("output-sequence", "delivered {got_items:?}, the script means {want_items:?}");
        }
        for ((tg, s), (tw, _)) in seen.iter().zip(expect.output.iter()) {
            if tg.abs_diff(*tw) > 1 {
                bad!("output-instant", "{s:?} delivered at virtual {tg} ms, expected {tw} ms (all: {seen:?} vs {:?})", expect.output);
            }
        }
        if attempts.len() != expect.attempts.len() {
            bad!("attempt-count", "{} initialisation attempts at {attempts:?}, expected {} at {:?}", attempts.len(), expect.attempts.len(), expect.attempts);
        }
        for (k, (a, w)) in attempts.iter().zip(expect.attempts.iter()).enumerate() {
            if a.abs_diff(*w) > 1 {
                bad!("backoff-timing", "initialisation attempt {k} started at virtual {a} ms, expected {w} ms (policy {policy:?}; all attempts {attempts:?}, expected {:?})", expect.attempts);
            }
        }
        if handler {
            let h = handled.lock().unwrap().clone();
            if h != expect.handled_errors {
                bad!("error-handler", "error handler received {h:?}, expected {:?}", expect.handled_errors);
            }
        }
        rep.class(match case.mode.min(2) {
            0 => "plain",
            1 => "with_error_handler",
            _ => "with_error_handler_forward_to",
        });
        rep.class_if(expect.connections >= 2, "two_or_more_connections");
        rep.class_if(expect.consecutive_failures_max >= 3, "three_consecutive_failures");
        rep.class_if(expect.max_gap_reached, "backoff_cap_reached");
        rep.class_if(case.script.iter().any(|o| matches!(o, Outcome::Connected { items, .. } if items.iter().any(|(_, i)| matches!(i, Item::TerminalError(_))))), "terminal_error");
        rep.class_if(case.script.iter().any(|o| matches!(o, Outcome::Connected { items, .. } if items.iter().any(|(_, i)| matches!(i, Item::SoftError(_))))), "non_terminal_error");
        rep.nontrivial = expect.connections >= 2 && expect.consecutive_failures_max >= 3 && expect.max_gap_reached;
        rep
    }
}


// ---------------------------------------------------------------------------------------------
// market_stream_entry: the same scripts through the public entry point init_market_stream()
// ---------------------------------------------------------------------------------------------

mod scripted_venue {
    //! An in-process "exchange" whose `MarketStream::init` pops the harness's script (kept per
    //! thread: every case runs on one thread under a paused current-thread runtime).
    use super::{Item, Outcome};
    use barter_data::{
        Identifier, MarketStream, NoInitialSnapshots, SnapshotFetcher,
        error::DataError,
        event::MarketEvent,
        exchange::{Connector, StreamSelector, binance::subscription::BinanceSubResponse, subscription::ExchangeSub},
        subscriber::{WebSocketSubscriber, validator::WebSocketSubValidator},
        subscription::{Subscription, trade::{PublicTrade, PublicTrades}},
    };
    use barter_instrument::{Side, exchange::ExchangeId, instrument::market_data::MarketDataInstrument};
    use barter_integration::{error::SocketError, protocol::websocket::WsMessage};
    use futures::{Stream, StreamExt};
    use serde::{Deserialize, Serialize};
    use std::{cell::RefCell, collections::VecDeque, pin::Pin, time::Duration};

    pub type VenueItem = Result<MarketEvent<MarketDataInstrument, PublicTrade>, DataError>;

    thread_local! {
        pub static SCRIPT: RefCell<VecDeque<Outcome>> = const { RefCell::new(VecDeque::new()) };
        pub static ATTEMPTS: RefCell<Vec<u64>> = const { RefCell::new(Vec::new()) };
        pub static START: RefCell<Option<tokio::time::Instant>> = const { RefCell::new(None) };
    }

    #[derive(Debug, Clone, Default, PartialEq, Eq, PartialOrd, Ord, Hash, Deserialize, Serialize)]
    pub struct Scripted;
    pub struct Channel;
    impl AsRef<str> for Channel {
        fn as_ref(&self) -> &str {
            "trades"
        }
    }
    pub struct Market(String);
    impl AsRef<str> for Market {
        fn as_ref(&self) -> &str {
            &self.0
        }
    }
    impl<Instrument> Identifier<Channel> for Subscription<Scripted, Instrument, PublicTrades> {
        fn id(&self) -> Channel {
            Channel
        }
    }
    impl<Kind> Identifier<Market> for Subscription<Scripted, MarketDataInstrument, Kind> {
        fn id(&self) -> Market {
            Market(format!("{}{}", self.instrument.base, self.instrument.quote))
        }
    }
    impl Connector for Scripted {
        const ID: ExchangeId = ExchangeId::Mock;
        type Channel = Channel;
        type Market = Market;
        type Subscriber = WebSocketSubscriber;
        type SubValidator = WebSocketSubValidator;
        type SubResponse = BinanceSubResponse;
        fn url() -> Result<url::Url, SocketError> {
            Ok(url::Url::parse("ws://127.0.0.1:9").unwrap())
        }
        fn requests(_: Vec<ExchangeSub<Self::Channel, Self::Market>>) -> Vec<WsMessage> {
            Vec::new()
        }
    }

    pub fn instrument() -> MarketDataInstrument {
        MarketDataInstrument::from(("btc", "usdt", barter_instrument::instrument::market_data::kind::MarketDataInstrumentKind::Spot))
    }

    pub struct Connection(Pin<Box<dyn Stream<Item = VenueItem> + Send>>);
    impl Stream for Connection {
        type Item = VenueItem;
        fn poll_next(mut self: Pin<&mut Self>, cx: &mut std::task::Context<'_>) -> std::task::Poll<Option<VenueItem>> {
            self.0.as_mut().poll_next(cx)
        }
    }

    fn venue_item(item: Item) -> VenueItem {
        match item {
            Item::Value(v) => Ok(MarketEvent { time_exchange: Default::default(), time_received: Default::default(), exchange: ExchangeId::Mock, instrument: instrument(), kind: PublicTrade { id: v.to_string(), price: 1.0, amount: 1.0, side: Side::Buy } }),
            // a recoverable error and a terminal one (sequence errors end the connection)
            Item::SoftError(id) => Err(DataError::Socket(id.to_string())),
            Item::TerminalError(id) => Err(DataError::InvalidSequence { prev_last_update_id: id as u64, first_update_id: 0 }),
        }
    }

    #[async_trait::async_trait]
    impl MarketStream<Scripted, MarketDataInstrument, PublicTrades> for Connection {
        async fn init<SnapFetcher>(_: &[Subscription<Scripted, MarketDataInstrument, PublicTrades>]) -> Result<Self, DataError>
        where
            SnapFetcher: SnapshotFetcher<Scripted, PublicTrades>,
            Subscription<Scripted, MarketDataInstrument, PublicTrades>: Identifier<Channel> + Identifier<Market>,
        {
            let next = SCRIPT.with(|s| s.borrow_mut().pop_front());
            let start = START.with(|s| *s.borrow()).expect("start instant set by the check");
            ATTEMPTS.with(|a| a.borrow_mut().push(start.elapsed().as_millis() as u64));
            match next {
                None => std::future::pending::<Result<Self, DataError>>().await,
                Some(Outcome::InitFail { init_ms }) => {
                    tokio::time::sleep(Duration::from_millis(init_ms as u64)).await;
                    Err(DataError::Socket("refused".into()))
                }
                Some(Outcome::Connected { init_ms, items }) => {
                    tokio::time::sleep(Duration::from_millis(init_ms as u64)).await;
                    Ok(Connection(Box::pin(futures::stream::iter(items).then(|(d, item)| async move {
                        if d > 0 {
                            tokio::time::sleep(Duration::from_millis(d as u64)).await;
                        }
                        venue_item(item)
                    }))))
                }
            }
        }
    }

    impl StreamSelector<MarketDataInstrument, PublicTrades> for Scripted {
        type SnapFetcher = NoInitialSnapshots;
        type Stream = Connection;
    }
}

/// The reconnect scripts again, this time through `barter_data::streams::consumer::
/// init_market_stream(policy, subscriptions)` with a scripted in-process venue: same delivery, same
/// notices, and the waits follow the policy that was PASSED IN.
pub struct MarketStreamEntry;

impl Check for MarketStreamEntry {
    type Case = ReconnectCase;
    const NAME: &'static str = "market_stream_entry";

    fn normalise(case: ReconnectCase) -> ReconnectCase {
        <ReconnectScript as Check>::normalise(case)
    }

    fn strategy(tier: Tier) -> BoxedStrategy<ReconnectCase> {
        <ReconnectScript as Check>::strategy(tier)
    }

    fn eval(case: &ReconnectCase) -> CaseReport {
        use barter_data::{streams::consumer::init_market_stream, subscription::{Subscription, trade::PublicTrades}};
        use scripted_venue::{ATTEMPTS, SCRIPT, START, Scripted, instrument};
        let mut rep = CaseReport::new();
        macro_rules! bad {
            ($sig:expr, $($fmt:tt)+) => {{ rep.fail($sig, format!($($fmt)+)); return rep; }};
        }
        let expect = reference(case, false);
        let policy = ReconnectionBackoffPolicy { backoff_ms_initial: case.initial_ms.max(1) as u64, backoff_multiplier: case.multiplier.max(1), backoff_ms_max: case.initial_ms.max(1) as u64 + case.max_extra_ms as u64 };
        let rt = tokio::runtime::Builder::new_current_thread().enable_time().start_paused(true).build().expect("runtime");
        let horizon = Duration::from_secs(48 * 3600);
        let result: Option<(Vec<(u64, Seen)>, bool, bool)> = rt.block_on(async {
            let start = Instant::now();
            SCRIPT.with(|s| *s.borrow_mut() = case.script.iter().cloned().collect());
            ATTEMPTS.with(|a| a.borrow_mut().clear());
            START.with(|s| *s.borrow_mut() = Some(start));
            let stream = match init_market_stream(policy.clone(), vec![Subscription::new(Scripted, instrument(), PublicTrades)]).await {
                Ok(s) => s,
                Err(_) => return None,
            };
            let mut st = Box::pin(stream);
            let (mut seen, mut ended, mut terminal_leaked) = (Vec::new(), false, false);
            loop {
                match tokio::time::timeout(horizon, st.next()).await {
                    Err(_) => break,
                    Ok(None) => {
                        ended = true;
                        break;
                    }
                    Ok(Some(ev)) => {
                        let s = match ev {
                            Event::Reconnecting(_) => Seen::Reconnecting,
                            Event::Item(Ok(e)) => Seen::Value(e.kind.id.parse().unwrap_or(u32::MAX)),
                            Event::Item(Err(e)) => {
                                terminal_leaked |= e.is_terminal();
                                Seen::SoftError(match &e { barter_data::error::DataError::Socket(s) => s.parse().unwrap_or(u32::MAX), _ => u32::MAX })
                            }
                        };
                        seen.push((start.elapsed().as_millis() as u64, s));
                    }
                }
            }
            Some((seen, ended, terminal_leaked))
        });
        let attempts = ATTEMPTS.with(|a| a.borrow().clone());
        let Some((seen, ended, terminal_leaked)) = result else {
            if !expect.first_init_fails {
                bad!("entry:first-init-error", "init_market_stream returned Err although the first initialisation succeeds");
            }
            rep.class("first_init_fails");
            return rep;
        };
        if expect.first_init_fails {
            bad!("entry:first-init-error-swallowed", "the first initialisation fails but init_market_stream returned a stream");
        }
        if ended {
            bad!("entry:stream-ended", "the market stream ended by itself after {:?}", seen.last());
        }
        if terminal_leaked {
            bad!("entry:terminal-error-delivered", "a terminal error was delivered as an item: {seen:?}");
        }
        let got_items: Vec<&Seen> = seen.iter().map(|(_, s)| s).collect();
        let want_items: Vec<&Seen> = expect.output.iter().map(|(_, s)| s).collect();
        if got_items != want_items {
            bad!("entry:output-sequence", "delivered {got_items:?}, the script means {want_items:?}");
        }
        if attempts.len() != expect.attempts.len() {
            bad!("entry:attempt-count", "{} initialisation attempts at {attempts:?}, expected {} at {:?}", attempts.len(), expect.attempts.len(), expect.attempts);
        }
        for (k, (a, w)) in attempts.iter().zip(expect.attempts.iter()).enumerate() {
            if a.abs_diff(*w) > 1 {
                bad!("entry:backoff-timing", "init_market_stream with policy {policy:?}: initialisation attempt {k} started at virtual {a} ms, the policy passed in means {w} ms (all attempts {attempts:?}, expected {:?})", expect.attempts);
            }
        }
        rep.class_if(expect.connections >= 2, "two_or_more_connections");
        rep.class_if(expect.consecutive_failures_max >= 3, "three_consecutive_failures");
        rep.class_if(expect.max_gap_reached, "backoff_cap_reached");
        rep.nontrivial = expect.connections >= 2 && expect.consecutive_failures_max >= 2;
        rep
    }
}

// ---------------------------------------------------------------------------------------------

#[derive(Debug, Clone, Copy, PartialEq, Eq, Serialize, Deserialize)]
pub enum Slot {
    Left,
    Right,
    LeftEnds,
    RightEnds,
}

#[derive(Debug, Clone, Serialize, Deserialize)]
pub struct MergeCase {
    /// one slot per millisecond (slot i happens at (i+1)*gap ms); end slots beyond the first per side are ignored
    pub slots: Vec<Slot>,
    pub gap_ms: u8,
}

pub struct MergeOrder;

fn timed(items: Vec<(u64, Option<u32>)>, start: Instant) -> impl Stream<Item = u32> {
    // yields Some values at their instants; a None marks the end of the stream at its instant
    futures::stream::iter(items)
        .then(move |(at, v)| async move {
            tokio::time::sleep_until(start + Duration::from_millis(at)).await;
            v
        })
        .take_while(|v| std::future::ready(v.is_some()))
        .map(|v| v.unwrap())
}

impl Check for MergeOrder {
    type Case = MergeCase;
    const NAME: &'static str = "merge_order";

    fn normalise(mut case: MergeCase) -> MergeCase {
        case.gap_ms = 1 + case.gap_ms % 19;
        case
    }

    fn strategy(tier: Tier) -> BoxedStrategy<MergeCase> {
        let max = if tier == Tier::Quick { 30 } else { 80 };
        (prop::collection::vec(prop_oneof![8 => Just(Slot::Left), 8 => Just(Slot::Right), 1 => Just(Slot::LeftEnds), 1 => Just(Slot::RightEnds)], 0..max), 1u8..20)
            .prop_map(|(slots, gap_ms)| MergeCase { slots, gap_ms })
            .boxed()
    }

    fn eval(case: &MergeCase) -> CaseReport {
        let mut rep = CaseReport::new();
        let gap = case.gap_ms.max(1) as u64;
        let mut left: Vec<(u64, Option<u32>)> = Vec::new();
        let mut right: Vec<(u64, Option<u32>)> = Vec::new();
        let (mut l_done, mut r_done) = (false, false);
        let mut expected: Vec<u32> = Vec::new();
        let mut first_end: Option<u64> = None;
        for (i, s) in case.slots.iter().enumerate() {
            let at = (i as u64 + 1) * gap;
            let id = i as u32;
            match s {
                Slot::Left if !l_done => {
                    left.push((at, Some(id)));
                    if first_end.is_none() {
                        expected.push(id);
                    }
                }
                Slot::Right if !r_done => {
                    right.push((at, Some(1_000_000 + id)));
                    if first_end.is_none() {
                        expected.push(1_000_000 + id);
                    }
                }
                Slot::LeftEnds if !l_done => {
                    l_done = true;
                    left.push((at, None));
                    first_end.get_or_insert(at);
                }
                Slot::RightEnds if !r_done => {
                    r_done = true;
                    right.push((at, None));
                    first_end.get_or_insert(at);
                }
                _ => {}
            }
        }
        // streams that never get an end slot end after their last item at a later, distinct instant
        let tail = (case.slots.len() as u64 + 2) * gap;
        if !l_done {
            left.push((tail, None));
        }
        if !r_done {
            right.push((tail + gap, None));
        }
        let rt = tokio::runtime::Builder::new_current_thread().enable_time().start_paused(true).build().expect("runtime");
        let (got, ended, end_at, fused) = rt.block_on(async {
            let start = Instant::now();
            let mut m = Box::pin(merge(timed(left.clone(), start), timed(right.clone(), start)));
            let mut got: Vec<(u64, u32)> = Vec::new();
            let mut ended = false;
            let mut end_at = 0u64;
            loop {
                match tokio::time::timeout(Duration::from_secs(3600), m.next()).await {
                    Err(_) => break,
                    Ok(None) => {
                        ended = true;
                        end_at = start.elapsed().as_millis() as u64;
                        break;
                    }
                    Ok(Some(v)) => got.push((start.elapsed().as_millis() as u64, v)),
                }
            }
            let fused = matches!(tokio::time::timeout(Duration::from_secs(3600), m.next()).await, Ok(None));
            (got, ended, end_at, fused)
        });
        let first_end_at = first_end.unwrap_or(tail);
        let got_vals: Vec<u32> = got.iter().map(|(_, v)| *v).collect();
        if got_vals != expected {
            rep.fail("merge-items", format!("merged output {got_vals:?}, expected every item of both inputs before the first input end in time order: {expected:?} (left {left:?}, right {right:?})"));
            return rep;
        }
        if !ended || !fused {
            rep.fail("merge-not-ended", format!("merged stream ended = {ended}, stays ended = {fused} after an input ended at {first_end_at} ms"));
            return rep;
        }
        if end_at.abs_diff(first_end_at) > 1 {
            rep.fail("merge-end-instant", format!("merged stream ended at {end_at} ms, the first input ended at {first_end_at} ms"));
            return rep;
        }
        let (nl, nr) = (expected.iter().filter(|v| **v < 1_000_000).count(), expected.iter().filter(|v| **v >= 1_000_000).count());
        rep.class_if(first_end.is_some(), "explicit_end_slot");
        rep.class_if(nl > 0 && nr > 0, "both_inputs_contribute");
        rep.class_if(case.slots.len() > expected.len() + 2, "items_after_first_end_dropped");
        rep.nontrivial = nl >= 2 && nr >= 2;
        rep
    }
}

// ---------------------------------------------------------------------------------------------
// builder_fan_in: several per-kind stream builders fanned into one output per exchange
// ---------------------------------------------------------------------------------------------

/// One input = the reconnecting stream of one (builder, exchange); what it delivers is written
/// into the channel `StreamBuilder::subscribe` would have created for that exchange.
#[derive(Debug, Clone, Serialize, Deserialize)]
pub struct FanInCase {
    /// per builder: (kind selector: even = public trades, odd = L1 books; exchange mask over 3 exchanges)
    pub builders: Vec<(u8, u8)>,
    /// deliveries in time order: (input selector, reconnect notice instead of an item)
    pub sends: Vec<(u8, bool)>,
}

pub struct BuilderFanIn;

const FAN_EXCHANGES: [ExchangeId; 3] = [ExchangeId::BinanceSpot, ExchangeId::Okx, ExchangeId::Kraken];

impl Check for BuilderFanIn {
    type Case = FanInCase;
    const NAME: &'static str = "builder_fan_in";

    fn normalise(mut case: FanInCase) -> FanInCase {
        case.builders.truncate(4);
        case.sends.truncate(40);
        if case.builders.is_empty() {
            case.builders.push((0, 1));
        }
        case
    }

    fn strategy(tier: Tier) -> BoxedStrategy<FanInCase> {
        let max = if tier == Tier::Quick { 20 } else { 40 };
        (prop::collection::vec((0u8..2, 1u8..8), 1..=4), prop::collection::vec((any::<u8>(), prop::bool::weighted(0.15)), 0..max))
            .prop_map(|(builders, sends)| FanInCase { builders, sends })
            .boxed()
    }

    fn eval(case: &FanInCase) -> CaseReport {
        use barter_data::{
            event::{DataKind, MarketEvent},
            streams::{Streams, builder::StreamBuilder, consumer::MarketStreamResult},
            subscription::{
                book::{OrderBookL1, OrderBooksL1},
                trade::{PublicTrade, PublicTrades},
            },
        };
        use barter_integration::channel::{Channel, Tx, UnboundedTx};
        type Out = MarketStreamResult<u32, DataKind>;
        enum InputTx {
            Trades(UnboundedTx<MarketStreamResult<u32, PublicTrade>>),
            L1(UnboundedTx<MarketStreamResult<u32, OrderBookL1>>),
        }
        #[derive(Debug, Clone, Copy, PartialEq, Eq)]
        enum Tok {
            Item(u32),
            Notice,
        }
        let mut rep = CaseReport::new();
        macro_rules! bad {
            ($sig:expr, $($fmt:tt)+) => {{ rep.fail($sig, format!($($fmt)+)); return rep; }};
        }
        let t0 = chrono::DateTime::<chrono::Utc>::from_timestamp(1_700_000_000, 0).expect("time");
        let rt = tokio::runtime::Builder::new_current_thread().enable_time().start_paused(true).build().expect("runtime");
        // inputs: (builder, exchange)
        let mut inputs: Vec<(usize, ExchangeId, InputTx)> = Vec::new();
        let outcome: Result<Vec<(ExchangeId, Vec<Tok>, bool)>, String> = rt.block_on(async {
            let mut multi = Streams::<Out>::builder_multi();
            for (b, (kind, mask)) in case.builders.iter().enumerate() {
                let exchanges: Vec<ExchangeId> = FAN_EXCHANGES.iter().enumerate().filter(|(i, _)| mask & (1 << i) != 0).map(|(_, e)| *e).collect();
                if kind % 2 == 0 {
                    let mut builder = StreamBuilder::<u32, PublicTrades>::new();
                    for e in exchanges {
                        let channel = Channel::default();
                        inputs.push((b, e, InputTx::Trades(channel.tx.clone())));
                        builder.channels.insert(e, channel);
                    }
                    multi = multi.add(builder);
                } else {
                    let mut builder = StreamBuilder::<u32, OrderBooksL1>::new();
                    for e in exchanges {
                        let channel = Channel::default();
                        inputs.push((b, e, InputTx::L1(channel.tx.clone())));
                        builder.channels.insert(e, channel);
                    }
                    multi = multi.add(builder);
                }
            }
            let mut streams = multi.init().await.map_err(|e| format!("MultiStreamBuilder::init failed: {e}"))?;
            if inputs.is_empty() {
                return Ok(vec![]);
            }
            // deliveries, one per virtual millisecond
            for (n, (sel, notice)) in case.sends.iter().enumerate() {
                let (_, e, tx) = &inputs[(*sel as usize * inputs.len()) >> 8];
                let n = n as u32;
                // a closed channel is a symptom, not a harness problem: the oracle reports what is missing
                match tx {
                    InputTx::Trades(tx) => {
                        let _ = tx.send(if *notice { Event::Reconnecting(*e) } else { Event::Item(Ok(MarketEvent { time_exchange: t0, time_received: t0, exchange: *e, instrument: n, kind: PublicTrade { id: n.to_string(), price: 1.0, amount: 1.0, side: barter_instrument::Side::Buy } })) });
                    }
                    InputTx::L1(tx) => {
                        let _ = tx.send(if *notice { Event::Reconnecting(*e) } else { Event::Item(Ok(MarketEvent { time_exchange: t0, time_received: t0, exchange: *e, instrument: n, kind: OrderBookL1 { last_update_time: t0, best_bid: None, best_ask: None } })) });
                    }
                }
                tokio::time::sleep(Duration::from_millis(1)).await;
            }
            // all connections close for good: the outputs end once everything has been passed on
            let keys: Vec<(usize, ExchangeId)> = inputs.iter().map(|(b, e, _)| (*b, *e)).collect();
            inputs.clear();
            let mut out = Vec::new();
            let mut exchanges: Vec<ExchangeId> = keys.iter().map(|(_, e)| *e).collect();
            exchanges.sort();
            exchanges.dedup();
            if streams.streams.len() != exchanges.len() {
                return Err(format!("{} output streams for the exchanges {exchanges:?}", streams.streams.len()));
            }
            for e in exchanges {
                let Some(mut rx) = streams.streams.remove(&e) else { return Err(format!("no output stream for {e}")) };
                let mut toks = Vec::new();
                let mut ended = false;
                loop {
                    match tokio::time::timeout(Duration::from_secs(3600), rx.rx.recv()).await {
                        Err(_) => break,
                        Ok(None) => {
                            ended = true;
                            break;
                        }
                        Ok(Some(Event::Reconnecting(x))) if x == e => toks.push(Tok::Notice),
                        Ok(Some(Event::Item(Ok(ev)))) if ev.exchange == e => toks.push(Tok::Item(ev.instrument)),
                        Ok(Some(other)) => return Err(format!("output of {e} delivered {other:?}")),
                    }
                }
                out.push((e, toks, ended));
            }
            Ok(out)
        });
        let out = match outcome {
            Ok(o) => o,
            Err(e) => bad!("fan-in:setup", "{e}"),
        };
        // expected: per exchange, every input's deliveries, each input's own order kept
        let mut input_keys: Vec<(usize, ExchangeId)> = Vec::new();
        for (b, (_, mask)) in case.builders.iter().enumerate() {
            for (i, e) in FAN_EXCHANGES.iter().enumerate() {
                if mask & (1 << i) != 0 {
                    input_keys.push((b, *e));
                }
            }
        }
        let mut per_input: Vec<Vec<Tok>> = vec![Vec::new(); input_keys.len()];
        if !input_keys.is_empty() {
            for (n, (sel, notice)) in case.sends.iter().enumerate() {
                per_input[(*sel as usize * input_keys.len()) >> 8].push(if *notice { Tok::Notice } else { Tok::Item(n as u32) });
            }
        }
        let mut shared_busy = false;
        for (e, got, _ended) in &out {
            let mine: Vec<usize> = (0..input_keys.len()).filter(|i| input_keys[*i].1 == *e).collect();
            let want_len: usize = mine.iter().map(|i| per_input[*i].len()).sum();
            for i in &mine {
                // the input's deliveries appear in the output in the input's order
                let mut it = got.iter();
                for tok in &per_input[*i] {
                    if !it.any(|g| g == tok) {
                        bad!("fan-in:input-not-delivered-in-order", "output of {e}: input of builder {} delivered {:?}, the output is {got:?} ({} builders cover {e})", input_keys[*i].0, per_input[*i], mine.len());
                    }
                }
            }
            if got.len() != want_len {
                bad!("fan-in:multiplicity", "output of {e} delivered {} events {got:?}, its {} inputs delivered {want_len}", got.len(), mine.len());
            }
            shared_busy |= mine.iter().filter(|i| !per_input[**i].is_empty()).count() >= 2;
        }
        rep.class_if(shared_busy, "two_builders_deliver_for_one_exchange");
        rep.class_if(case.sends.iter().any(|(_, n)| *n), "reconnect_notice");
        rep.class_if(out.len() >= 2, "two_or_more_exchanges");
        rep.nontrivial = shared_busy;
        rep
    }
}

// ---------------------------------------------------------------------------------------------
// mock_account_lag: the mock exchange's account connection behind the reconnecting combinators
// ---------------------------------------------------------------------------------------------

/// The account stream `ExecutionBuilder::add_mock` / `ExecutionManager::init` wrap with the
/// reconnecting combinators is a broadcast subscription: a consumer that falls too far behind has
/// irrecoverably lost updates — the connection's terminal error.
#[derive(Debug, Clone, Serialize, Deserialize)]
pub struct LagCase {
    /// broadcast capacity selector (1..=16)
    pub capacity: u8,
    /// alternating phases: this many updates are broadcast, then the consumer takes what is ready
    pub bursts: Vec<u8>,
}

pub struct MockAccountLag;

impl Check for MockAccountLag {
    type Case = LagCase;
    const NAME: &'static str = "mock_account_lag";

    fn normalise(mut case: LagCase) -> LagCase {
        case.bursts.truncate(10);
        for b in &mut case.bursts {
            *b %= 40;
        }
        case
    }

    fn strategy(_tier: Tier) -> BoxedStrategy<LagCase> {
        (1u8..=16, prop::collection::vec(prop_oneof![3 => 0u8..6, 1 => 0u8..40], 1..8)).prop_map(|(capacity, bursts)| LagCase { capacity, bursts }).boxed()
    }

    fn eval(case: &LagCase) -> CaseReport {
        use barter_execution::{
            AccountEvent, AccountEventKind, UnindexedAccountEvent,
            balance::{AssetBalance, Balance},
            client::{ExecutionClient, mock::{MockExecution, MockExecutionClientConfig}},
            error::UnindexedClientError,
        };
        use barter_instrument::asset::name::AssetNameExchange;
        use barter_integration::snapshot::Snapshot;
        use rust_decimal::Decimal;
        let mut rep = CaseReport::new();
        macro_rules! bad {
            ($sig:expr, $($fmt:tt)+) => {{ rep.fail($sig, format!($($fmt)+)); return rep; }};
        }
        let capacity = 1 + (case.capacity as usize).saturating_sub(1) % 16;
        let rt = tokio::runtime::Builder::new_current_thread().enable_time().start_paused(true).build().expect("runtime");
        // Some(n) = update n, None = reconnect notice
        let seen: Result<Vec<Option<u64>>, String> = rt.block_on(async {
            let (request_tx, _request_rx) = tokio::sync::mpsc::unbounded_channel();
            let (event_tx, event_rx) = tokio::sync::broadcast::channel::<UnindexedAccountEvent>(capacity);
            fn t0() -> chrono::DateTime<chrono::Utc> {
                crate::props::gens::ts(crate::props::gens::T0_MS)
            }
            let client = <MockExecution<fn() -> chrono::DateTime<chrono::Utc>> as ExecutionClient>::new(MockExecutionClientConfig { mocked_exchange: ExchangeId::Mock, clock: t0 as fn() -> chrono::DateTime<chrono::Utc>, request_tx, event_rx });
            let policy = ReconnectionBackoffPolicy { backoff_ms_initial: 1, backoff_multiplier: 1, backoff_ms_max: 1 };
            let base = init_reconnecting_stream(move || {
                let client = client.clone();
                async move { client.account_stream(&[], &[]).await }
            })
            .await
            .map_err(|e| format!("first account_stream failed: {e:?}"))?;
            let mut stream = Box::pin(base.with_reconnect_backoff::<_, UnindexedClientError>(policy, StreamKey::new("verif", ExchangeId::Mock, None)).with_reconnection_events(ExchangeId::Mock));
            let mut out: Vec<Option<u64>> = Vec::new();
            let mut n = 0u64;
            for burst in &case.bursts {
                for _ in 0..*burst {
                    n += 1;
                    let update: UnindexedAccountEvent = AccountEvent { exchange: ExchangeId::Mock, kind: AccountEventKind::BalanceSnapshot(Snapshot(AssetBalance { asset: AssetNameExchange::new("usdt"), balance: Balance::new(Decimal::from(n), Decimal::from(n)), time_exchange: t0() })) };
                    let _ = event_tx.send(update);
                }
                // everything that is ready within 10 virtual ms (re-initialisation included)
                loop {
                    match tokio::time::timeout(Duration::from_millis(10), stream.next()).await {
                        Err(_) => break,
                        Ok(None) => return Err("the reconnecting account stream ended".to_string()),
                        Ok(Some(Event::Reconnecting(_))) => out.push(None),
                        Ok(Some(Event::Item(ev))) => match ev.kind {
                            AccountEventKind::BalanceSnapshot(Snapshot(b)) => out.push(Some(u64::try_from(b.balance.total).unwrap_or(u64::MAX))),
                            other => return Err(format!("unexpected account event {other:?}")),
                        },
                    }
                }
            }
            Ok(out)
        });
        let seen = match seen {
            Ok(s) => s,
            Err(e) => bad!("lag:stream", "{e}"),
        };
        // updates are delivered in order, at most once, and a hole is always announced
        let mut last: Option<u64> = None;
        let mut announced = true; // a fresh connection may start anywhere
        for (i, s) in seen.iter().enumerate() {
            match s {
                None => announced = true,
                Some(n) => {
                    if last.is_some_and(|l| *n <= l) {
                        bad!("lag:order", "update {n} delivered after update {:?}: {seen:?}", last);
                    }
                    if last.is_some_and(|l| *n != l + 1) && !announced {
                        bad!("lag:unannounced-gap", "capacity {capacity}, bursts {:?}: update {n} follows update {:?} without a reconnect notice in between (position {i} of {seen:?})", case.bursts, last);
                    }
                    last = Some(*n);
                    announced = false;
                }
            }
        }
        let total: u64 = case.bursts.iter().map(|b| *b as u64).sum();
        if case.bursts.last().is_some_and(|b| *b > 0 && (*b as usize) < capacity) && last != Some(total) {
            bad!("lag:tail-lost", "capacity {capacity}, bursts {:?}: the last burst fits the channel, yet update {total} was not delivered: {seen:?}", case.bursts);
        }
        let lagged = case.bursts.iter().any(|b| *b as usize > capacity.next_power_of_two());
        rep.class_if(lagged, "consumer_fell_behind_by_more_than_the_capacity");
        rep.class_if(seen.iter().any(|s| s.is_none()), "reconnect_notice");
        rep.nontrivial = lagged;
        rep
    }
}

pub fn run(ctx: &mut Ctx) {
    ctx.rule = "reconnect_script: script vec(outcome,1..12|24), outcome = init failure (after 0..300 ms) | connection (init 0..300 ms, 0..5 items = value / non-terminal error / terminal error, each after 0..500 ms); policy initial 1..5000 ms, multiplier 1..10, max = initial + {0, <20 s, <2000 s}; composition plain / + with_error_handler / + forward_to; paused clock. non-trivial = >= 2 successful connections AND >= 3 consecutive init failures AND the backoff cap reached; distinct by hash of the case. market_stream_entry: the same scripts through init_market_stream(policy, subscriptions) with a scripted in-process venue (delivery, notices and the waits of the policy passed in). builder_fan_in: 1..4 per-kind stream builders (public trades / L1 books), each covering a generated subset of 3 exchanges, added to one MultiStreamBuilder; 0..20|40 deliveries (item or reconnect notice, 15%) written into the builders' per-exchange channels one per virtual ms; every exchange's output must carry each input's deliveries in that input's order and nothing else; non-trivial = two builders deliver for one exchange. mock_account_lag: the mock exchange's account connection (a broadcast subscription of capacity 1..16) behind init_reconnecting_stream + backoff + reconnection events; 1..7 phases of 0..39 broadcast updates followed by the consumer taking what is ready: updates arrive in order, at most once, and a hole is always preceded by a reconnect notice; non-trivial = a burst larger than the capacity. merge_order: two inputs defined by a slot sequence (one event per slot instant: left item, right item, left ends, right ends); non-trivial = both inputs contribute >= 2 items before the first end.".into();
    ctx.assumptions = vec![
        "tokio paused clock; instants compared with 1 ms tolerance (timer granularity)".into(),
        "policy has multiplier >= 1 and max >= initial".into(),
        "merge: events of the two inputs (items and ends) happen at distinct instants".into(),
        "'never ends by itself' is decided as: still pending 48 virtual hours after the script is exhausted".into(),
    ];
    ctx.run_regressions::<ReconnectScript>();
    ctx.run_regressions::<MergeOrder>();
    ctx.run_regressions::<MarketStreamEntry>();
    ctx.run::<MarketStreamEntry>(ctx.tier.pick(30_000, 400_000));
    ctx.run::<ReconnectScript>(ctx.tier.pick(60_000, 1_000_000));
    ctx.run::<MergeOrder>(ctx.tier.pick(60_000, 1_000_000));
    ctx.run_regressions::<BuilderFanIn>();
    ctx.run::<BuilderFanIn>(ctx.tier.pick(20_000, 300_000));
    ctx.run_regressions::<MockAccountLag>();
    ctx.run::<MockAccountLag>(ctx.tier.pick(20_000, 300_000));
}

pub fn replay(ctx: &mut Ctx, doc: &Value) -> bool {
    ctx.replay::<ReconnectScript>(doc) || ctx.replay::<MarketStreamEntry>(doc) || ctx.replay::<MergeOrder>(doc) || ctx.replay::<BuilderFanIn>(doc) || ctx.replay::<MockAccountLag>(doc)
}
