//! C01 — Active-order tracking follows the documented order lifecycle.
//!
//! Check `orders_lifecycle`: generated histories of {open request sent, cancel request sent, order
//! snapshot (any state / timestamp), cancel response ok/err} over several client order ids are
//! applied (a) to a bare `Orders` map through `OrderManager` + `InFlightRequestRecorder` and
//! (b) to an `EngineState` over 2 exchanges / 3 instruments through `update_from_account`
//! (OrderSnapshot, OrderCancelled, full account Snapshot) and `record_in_flight_*`; after every op
//! both are compared with a reference lifecycle model and the history invariants are checked.

use crate::ensure;
use crate::framework::{CaseReport, Check, Ctx, Tier};
use crate::props::gens::{ts, T0_MS};
use crate::props::world::{self, DefaultState, InstrumentDef, KindDef, UnitDef};
use barter::engine::state::{
    order::{Orders, in_flight_recorder::InFlightRequestRecorder, manager::OrderManager},
    trading::TradingState,
};
use barter_execution::{
    AccountEvent, AccountEventKind, AccountSnapshot, InstrumentAccountSnapshot,
    error::{ApiError, ConnectivityError, OrderError},
    order::{
        Order, OrderKey, OrderKind, TimeInForce,
        id::{ClientOrderId, OrderId, StrategyId},
        request::{OrderRequestCancel, OrderRequestOpen, OrderResponseCancel, RequestCancel, RequestOpen},
        state::{ActiveOrderState, CancelInFlight, Cancelled, InactiveOrderState, Open, OpenInFlight, OrderState},
    },
};
use barter_instrument::{
    Side,
    asset::AssetIndex,
    exchange::ExchangeIndex,
    instrument::InstrumentIndex,
};
use barter_integration::snapshot::Snapshot;
use proptest::prelude::*;
use rust_decimal::Decimal;
use serde::{Deserialize, Serialize};
use serde_json::Value;

/// Order quantity of every generated order (fills are 0..=QTY; QTY = nothing left to fill).
pub const QTY: u8 = 4;
pub const N_CIDS: u8 = 4;

#[derive(Debug, Clone, Copy, PartialEq, Eq, Serialize, Deserialize)]
pub enum Terminal {
    StillOpen,
    FullyFilled,
    Cancelled,
    Expired,
    OpenFailed,
}

/// Hidden exchange-side timeline of one order (consistent mode): strictly increasing timestamps,
/// non-decreasing partial fills, then (optionally) a terminal state.
#[derive(Debug, Clone, PartialEq, Eq, Serialize, Deserialize)]
pub struct Timeline {
    /// (dt >= 1, fill increment)
    pub points: Vec<(u8, u8)>,
    pub terminal: Terminal,
    /// true: order originates from a request sent by this engine (OpenSent precedes everything);
    /// false: order is only ever known from exchange reports (e.g. account snapshot at start-up)
    pub sent_by_engine: bool,
}

impl Timeline {
    /// i-th open sample: (time, filled) — filled is always < QTY (a full fill is the terminal)
    fn sample(&self, i: usize) -> Option<(i64, u8)> {
        if self.points.is_empty() {
            return None;
        }
        let i = i.min(self.points.len() - 1);
        let mut t = 0i64;
        let mut f = 0u8;
        for (dt, df) in &self.points[..=i] {
            t += (*dt).max(1) as i64;
            f = f.saturating_add(*df).min(QTY - 1);
        }
        Some((t, f))
    }
    fn t_end(&self) -> i64 {
        self.points.iter().map(|(dt, _)| (*dt).max(1) as i64).sum::<i64>() + 1
    }
}

#[derive(Debug, Clone, Copy, PartialEq, Eq, Serialize, Deserialize)]
pub enum Rep {
    // ---- consistent-mode reports (resolved against the order's timeline) ----
    /// open sample `sel` of the timeline
    Sample(u16),
    /// cancel-in-flight snapshot carrying open sample `sel` (or none)
    SampleCancelInFlight(Option<u16>),
    /// the timeline's terminal state (FullyFilled is delivered either as the inactive state or,
    /// when `as_open`, as an Open report with nothing left to fill)
    TerminalState { as_open: bool },
    // ---- explicit reports (wild mode) ----
    OpenInFlight,
    Open { t: u8, filled: u8 },
    CancelInFlight { open: Option<(u8, u8)> },
    FullyFilled,
    Cancelled { t: u8 },
    Expired,
    OpenFailed,
    /// (wild mode) open report stating quantity QTY + 2 instead of the requested QTY
    OpenAmended { t: u8, filled: u8 },
}

#[derive(Debug, Clone, PartialEq, Eq, Serialize, Deserialize)]
pub enum Op {
    OpenSent { cid: u8 },
    CancelSent { cid: u8 },
    Report { cid: u8, rep: Rep },
    /// cancel response; consistent mode turns Ok into Err unless the timeline ends Cancelled
    CancelResp { cid: u8, ok: bool, t: u8 },
    /// several reports packed into one full account snapshot (engine layer); applied one by one
    /// at the bare `Orders` layer
    PackedSnapshot { reports: Vec<(u8, Rep)> },
    /// several requests sent in one go (one strategy tick / one command): recorded through the
    /// batch entry points at the engine layer, one by one at the bare `Orders` layer
    BatchSent { cids: Vec<u8>, cancel: bool },
}

#[derive(Debug, Clone, Serialize, Deserialize)]
pub struct OrdersCase {
    pub consistent: bool,
    pub timelines: Vec<Timeline>,
    pub ops: Vec<Op>,
    /// engine layer: two orders on different instruments carry the same client order id (ids are
    /// unique per instrument only: every instrument keeps its own map)
    #[serde(default)]
    pub share_names: bool,
}

// -------------------------------------------------------------------------------------------
// Reference model
// -------------------------------------------------------------------------------------------

#[derive(Debug, Clone, PartialEq, Eq)]
pub struct O {
    pub t: i64,
    pub filled: u8,
}

#[derive(Debug, Clone, PartialEq, Eq)]
pub enum M {
    Untracked,
    OpenInFlight,
    Open(O),
    CancelInFlight(Option<O>),
}

impl M {
    fn held(&self) -> Option<&O> {
        match self {
            M::Open(o) => Some(o),
            M::CancelInFlight(o) => o.as_ref(),
            _ => None,
        }
    }
    fn tracked(&self) -> bool {
        !matches!(self, M::Untracked)
    }
}

/// A concrete, fully resolved input.
#[derive(Debug, Clone, PartialEq, Eq)]
pub enum In {
    OpenSent,
    CancelSent,
    RepOpenInFlight,
    RepOpen(O),
    /// an open report that states another order quantity than the request did (QTY + 2: amended
    /// / rounded by the venue); "nothing left to fill" is relative to the quantity the report states
    RepOpenAmended(O),
    RepCancelInFlight(Option<O>),
    RepInactive(Inactive),
    CancelOk(i64),
    /// failed cancel; the selector picks the error the exchange / client reports
    CancelErr(u8),
}

#[derive(Debug, Clone, Copy, PartialEq, Eq)]
pub enum Inactive {
    FullyFilled,
    Cancelled(i64),
    Expired,
    OpenFailed,
}

fn newer_or_eq(cur: &O, upd: &O) -> Vec<O> {
    if upd.t > cur.t {
        vec![upd.clone()]
    } else if upd.t == cur.t {
        // same exchange timestamp: the statement only forbids moving back; either is legal
        let mut v = vec![upd.clone()];
        if upd != cur {
            v.push(cur.clone());
        }
        v
    } else {
        vec![cur.clone()]
    }
}

/// Successors after an open report `o`; `finished` = the report leaves nothing to fill.
fn open_report_step(m: &M, o: &O, finished: bool) -> Vec<M> {
    if finished {
        // an 'open' report with nothing left to fill: the order is finished
        return match m.held() {
            // a report strictly older than the held data is stale: honouring or ignoring it are both
            // accepted. A report as recent as the held data (same exchange timestamp, e.g. two fills
            // inside one millisecond) is not stale: the order is finished
            Some(c) if o.t < c.t => vec![M::Untracked, m.clone()],
            _ => vec![M::Untracked],
        };
    }
    match m {
        M::Untracked | M::OpenInFlight => vec![M::Open(o.clone())],
        M::Open(c) => newer_or_eq(c, o).into_iter().map(M::Open).collect(),
        M::CancelInFlight(None) => vec![M::CancelInFlight(Some(o.clone()))],
        M::CancelInFlight(Some(c)) => newer_or_eq(c, o).into_iter().map(|x| M::CancelInFlight(Some(x))).collect(),
    }
}

/// Allowed successor states of the documented lifecycle.
pub fn model_step(m: &M, input: &In) -> Vec<M> {
    match input {
        In::OpenSent => vec![M::OpenInFlight],
        In::CancelSent => match m {
            M::Untracked => vec![M::Untracked],
            M::OpenInFlight => vec![M::CancelInFlight(None)],
            M::Open(o) => vec![M::CancelInFlight(Some(o.clone()))],
            M::CancelInFlight(o) => vec![M::CancelInFlight(o.clone())],
        },
        In::RepOpenInFlight => match m {
            M::Untracked => vec![M::OpenInFlight],
            other => vec![other.clone()],
        },
        // nothing left to fill is relative to the quantity the report itself states
        In::RepOpen(o) => open_report_step(m, o, o.filled >= QTY),
        In::RepOpenAmended(o) => open_report_step(m, o, o.filled >= QTY + 2),
        In::RepCancelInFlight(open) => match m {
            M::Untracked | M::OpenInFlight => vec![M::CancelInFlight(open.clone())],
            M::Open(c) => match open {
                None => vec![M::CancelInFlight(Some(c.clone()))],
                Some(o) => newer_or_eq(c, o).into_iter().map(|x| M::CancelInFlight(Some(x))).collect(),
            },
            M::CancelInFlight(c) => vec![M::CancelInFlight(c.clone())],
        },
        In::RepInactive(_) => vec![M::Untracked],
        In::CancelOk(_) => vec![M::Untracked],
        In::CancelErr(_) => match m {
            M::CancelInFlight(Some(o)) => vec![M::Open(o.clone())],
            M::CancelInFlight(None) => vec![M::Untracked],
            other => vec![other.clone()],
        },
    }
}

// -------------------------------------------------------------------------------------------
// Building real inputs
// -------------------------------------------------------------------------------------------

/// World of the engine layer: 2 exchanges, 3 instruments; cid -> instrument by cid % 3.
fn world_defs() -> Vec<InstrumentDef> {
    vec![
        InstrumentDef { exchange: 1, base: 0, quote: 2, kind: KindDef::Spot, unit: UnitDef::NoSpec },
        InstrumentDef { exchange: 1, base: 1, quote: 2, kind: KindDef::Spot, unit: UnitDef::NoSpec },
        InstrumentDef { exchange: 2, base: 0, quote: 3, kind: KindDef::Spot, unit: UnitDef::NoSpec },
    ]
}

fn cid_name(cid: u8) -> ClientOrderId {
    ClientOrderId::new(format!("cid-{cid}"))
}

struct Params {
    /// (exchange index, instrument index) per cid for the engine layer
    place: Vec<(ExchangeIndex, InstrumentIndex)>,
    /// engine layer: orders 1 and 2 (placed on different instruments) share one client order id
    share: bool,
}

/// client order id of an order at the engine layer
fn ename(p: &Params, cid: u8) -> ClientOrderId {
    if p.share && (cid == 1 || cid == 2) && p.place[1].1 != p.place[2].1 { ClientOrderId::new("cid-shared") } else { cid_name(cid) }
}

fn key(p: &Params, cid: u8, engine_layer: bool) -> OrderKey {
    let (e, i) = if engine_layer { p.place[cid as usize] } else { (ExchangeIndex(0), InstrumentIndex(0)) };
    OrderKey { exchange: e, instrument: i, strategy: StrategyId::new("strat"), cid: if engine_layer { ename(p, cid) } else { cid_name(cid) } }
}

fn side_of(cid: u8) -> Side {
    if cid % 2 == 0 { Side::Buy } else { Side::Sell }
}
fn price_of(cid: u8) -> Decimal {
    Decimal::from(100 + cid as u32)
}

/// Exchange order id stated by a report made at exchange time `t`. Venues re-number an order when it is
/// amended and render ids differently per endpoint, so the id is not constant over an order's life and
/// the string order of two ids says nothing about their age (for t % 3 == 1 the older id is the larger).
fn oid_of(cid: u8, t: i64) -> OrderId {
    OrderId::new(match t.rem_euclid(3) {
        0 => format!("oid-{cid}"),
        1 => format!("oid-{cid}-{:03}", 999 - t.clamp(0, 999)),
        _ => format!("oid-{cid}-a{t}"),
    })
}

fn open_of(cid: u8, o: &O) -> Open {
    Open { id: oid_of(cid, o.t), time_exchange: ts(T0_MS + o.t * 1000), filled_quantity: Decimal::from(o.filled) }
}

fn order_with<S>(p: &Params, cid: u8, engine_layer: bool, state: S) -> Order<ExchangeIndex, InstrumentIndex, S> {
    Order {
        key: key(p, cid, engine_layer),
        side: side_of(cid),
        price: price_of(cid),
        quantity: Decimal::from(QTY),
        kind: OrderKind::Limit,
        time_in_force: TimeInForce::GoodUntilCancelled { post_only: false },
        state,
    }
}

fn snapshot_order(p: &Params, cid: u8, engine_layer: bool, input: &In) -> Option<Order<ExchangeIndex, InstrumentIndex, OrderState<AssetIndex, InstrumentIndex>>> {
    let state: OrderState<AssetIndex, InstrumentIndex> = match input {
        In::RepOpenInFlight => OrderState::active(OpenInFlight),
        In::RepOpen(o) | In::RepOpenAmended(o) => OrderState::active(open_of(cid, o)),
        In::RepCancelInFlight(o) => OrderState::active(CancelInFlight { order: o.as_ref().map(|o| open_of(cid, o)) }),
        In::RepInactive(Inactive::FullyFilled) => OrderState::fully_filled(),
        In::RepInactive(Inactive::Expired) => OrderState::expired(),
        In::RepInactive(Inactive::Cancelled(t)) => OrderState::inactive(Cancelled { id: oid_of(cid, *t), time_exchange: ts(T0_MS + t * 1000) }),
        In::RepInactive(Inactive::OpenFailed) => OrderState::inactive(OrderError::Rejected(ApiError::OrderRejected("rejected".into()))),
        _ => return None,
    };
    let mut order = order_with(p, cid, engine_layer, state);
    if matches!(input, In::RepOpenAmended(_)) {
        order.quantity = Decimal::from(QTY + 2);
    }
    Some(order)
}

fn cancel_response(p: &Params, cid: u8, engine_layer: bool, input: &In) -> OrderResponseCancel<ExchangeIndex, AssetIndex, InstrumentIndex> {
    OrderResponseCancel {
        key: key(p, cid, engine_layer),
        state: match input {
            In::CancelOk(t) => Ok(Cancelled { id: oid_of(cid, *t), time_exchange: ts(T0_MS + t * 1000) }),
            In::CancelErr(kind) => Err(match kind % 6 {
                0 => OrderError::Connectivity(ConnectivityError::Timeout),
                1 => OrderError::Connectivity(ConnectivityError::Socket("closed".into())),
                2 => OrderError::Rejected(ApiError::OrderAlreadyCancelled),
                3 => OrderError::Rejected(ApiError::OrderAlreadyFullyFilled),
                4 => OrderError::Rejected(ApiError::RateLimit),
                _ => OrderError::Rejected(ApiError::OrderRejected("rejected".into())),
            }),
            _ => unreachable!("cancel response for a non-cancel input"),
        },
    }
}

fn open_request(p: &Params, cid: u8, engine_layer: bool) -> OrderRequestOpen<ExchangeIndex, InstrumentIndex> {
    OrderRequestOpen {
        key: key(p, cid, engine_layer),
        state: RequestOpen {
            side: side_of(cid),
            price: price_of(cid),
            quantity: Decimal::from(QTY),
            kind: OrderKind::Limit,
            time_in_force: TimeInForce::GoodUntilCancelled { post_only: false },
        },
    }
}

fn cancel_request(p: &Params, cid: u8, engine_layer: bool) -> OrderRequestCancel<ExchangeIndex, InstrumentIndex> {
    OrderRequestCancel { key: key(p, cid, engine_layer), state: RequestCancel { id: None } }
}

// -------------------------------------------------------------------------------------------
// Observation of real state
// -------------------------------------------------------------------------------------------

fn observe(p: &Params, cid: u8, engine_layer: bool, order: Option<&Order<ExchangeIndex, InstrumentIndex, ActiveOrderState>>) -> Result<M, String> {
    let Some(order) = order else { return Ok(M::Untracked) };
    let k = key(p, cid, engine_layer);
    if order.key != k {
        return Err(format!("entry for {} has key {:?}, expected {:?}", cid_name(cid), order.key, k));
    }
    if order.side != side_of(cid) || order.price != price_of(cid) || (order.quantity != Decimal::from(QTY) && order.quantity != Decimal::from(QTY + 2)) {
        return Err(format!("entry for {} carries another order's static data: {:?}", cid_name(cid), order));
    }
    let conv = |open: &Open| -> Result<O, String> {
        let t = (open.time_exchange - ts(T0_MS)).num_seconds();
        if open.id != oid_of(cid, t) {
            return Err(format!("entry for {} holds exchange order id {:?} next to the timestamp of the report that stated {:?}", cid_name(cid), open.id, oid_of(cid, t)));
        }
        let filled = u8::try_from(open.filled_quantity).map_err(|_| format!("bad filled quantity {}", open.filled_quantity))?;
        Ok(O { t, filled })
    };
    Ok(match &order.state {
        ActiveOrderState::OpenInFlight(_) => M::OpenInFlight,
        ActiveOrderState::Open(o) => M::Open(conv(o)?),
        ActiveOrderState::CancelInFlight(c) => M::CancelInFlight(match &c.order {
            Some(o) => Some(conv(o)?),
            None => None,
        }),
    })
}

trait Backend {
    fn apply(&mut self, p: &Params, cid: u8, input: &In);
    fn apply_packed(&mut self, p: &Params, items: &[(u8, In)]);
    /// several OpenSent or several CancelSent inputs recorded in one go
    fn apply_batch(&mut self, p: &Params, items: &[(u8, In)]) {
        for (cid, input) in items {
            self.apply(p, *cid, input);
        }
    }
    fn get(&self, p: &Params, cid: u8) -> Result<M, String>;
    fn all_cids_tracked(&self) -> usize;
}

struct Bare(Orders);

impl Backend for Bare {
    fn apply(&mut self, p: &Params, cid: u8, input: &In) {
        match input {
            In::OpenSent => self.0.record_in_flight_open(&open_request(p, cid, false)),
            In::CancelSent => self.0.record_in_flight_cancel(&cancel_request(p, cid, false)),
            In::CancelOk(_) | In::CancelErr(_) => self.0.update_from_cancel_response(&cancel_response(p, cid, false, input)),
            rep => {
                let order = snapshot_order(p, cid, false, rep).expect("report");
                self.0.update_from_order_snapshot(Snapshot(&order));
            }
        }
    }
    fn apply_packed(&mut self, p: &Params, items: &[(u8, In)]) {
        for (cid, input) in items {
            self.apply(p, *cid, input);
        }
    }
    fn get(&self, p: &Params, cid: u8) -> Result<M, String> {
        observe(p, cid, false, self.0.0.get(&cid_name(cid)))
    }
    fn all_cids_tracked(&self) -> usize {
        self.0.orders().count()
    }
}

struct EngineLayer(DefaultState);

impl Backend for EngineLayer {
    fn apply(&mut self, p: &Params, cid: u8, input: &In) {
        let exchange = p.place[cid as usize].0;
        match input {
            In::OpenSent => self.0.record_in_flight_open(&open_request(p, cid, true)),
            In::CancelSent => self.0.record_in_flight_cancel(&cancel_request(p, cid, true)),
            In::CancelOk(_) | In::CancelErr(_) => {
                let ev = AccountEvent { exchange, kind: AccountEventKind::OrderCancelled(cancel_response(p, cid, true, input)) };
                let _ = self.0.update_from_account(&ev);
            }
            rep => {
                let order = snapshot_order(p, cid, true, rep).expect("report");
                let ev = AccountEvent { exchange, kind: AccountEventKind::OrderSnapshot(Snapshot(order)) };
                let _ = self.0.update_from_account(&ev);
            }
        }
    }
    fn apply_packed(&mut self, p: &Params, items: &[(u8, In)]) {
        // one full account snapshot per exchange touched, orders grouped per instrument in op order
        let mut exchanges: Vec<ExchangeIndex> = items.iter().map(|(c, _)| p.place[*c as usize].0).collect();
        exchanges.dedup();
        let mut done: Vec<ExchangeIndex> = Vec::new();
        for e in exchanges {
            if done.contains(&e) {
                continue;
            }
            done.push(e);
            let mut instruments: Vec<InstrumentAccountSnapshot> = Vec::new();
            for (cid, input) in items.iter().filter(|(c, _)| p.place[*c as usize].0 == e) {
                let inst = p.place[*cid as usize].1;
                let order = snapshot_order(p, *cid, true, input).expect("report");
                match instruments.iter_mut().find(|s| s.instrument == inst) {
                    Some(s) => s.orders.push(order),
                    None => instruments.push(InstrumentAccountSnapshot { instrument: inst, orders: vec![order] }),
                }
            }
            let ev = AccountEvent { exchange: e, kind: AccountEventKind::Snapshot(AccountSnapshot { exchange: e, balances: vec![], instruments }) };
            let _ = self.0.update_from_account(&ev);
        }
    }
    fn apply_batch(&mut self, p: &Params, items: &[(u8, In)]) {
        if items.iter().all(|(_, i)| matches!(i, In::OpenSent)) {
            let requests: Vec<_> = items.iter().map(|(c, _)| open_request(p, *c, true)).collect();
            self.0.record_in_flight_opens(requests.iter());
        } else {
            let requests: Vec<_> = items.iter().map(|(c, _)| cancel_request(p, *c, true)).collect();
            self.0.record_in_flight_cancels(requests.iter());
        }
    }
    fn get(&self, p: &Params, cid: u8) -> Result<M, String> {
        let inst = p.place[cid as usize].1;
        let name = ename(p, cid);
        // the cid must not be tracked under any other instrument (unless another order placed there
        // legitimately carries the same id)
        for (i, (_, st)) in self.0.instruments.0.iter().enumerate() {
            let twin_there = (0..N_CIDS).any(|o| o != cid && ename(p, o) == name && p.place[o as usize].1.index() == i);
            if i != inst.index() && !twin_there && st.orders.0.contains_key(&name) {
                return Err(format!("{} is tracked under instrument {i}, but belongs to {}", name, inst));
            }
        }
        observe(p, cid, true, self.0.instruments.instrument_index(&inst).orders.0.get(&name))
    }
    fn all_cids_tracked(&self) -> usize {
        self.0.instruments.0.values().map(|s| s.orders.0.len()).sum()
    }
}

// -------------------------------------------------------------------------------------------
// Interpreter
// -------------------------------------------------------------------------------------------

#[derive(Default)]
struct Shape {
    open_after_cancel_request: bool,
    stale_report: bool,
    zero_remaining_for_tracked: bool,
    failed_cancel_restored: bool,
    resurrected_after_terminal: bool,
    packed: bool,
    batched: bool,
    cids_touched: [bool; N_CIDS as usize],
}

fn resolve_rep(case: &OrdersCase, cid: u8, rep: &Rep) -> Option<In> {
    let tl = &case.timelines[cid as usize];
    let sel = |s: u16| tl.sample(((s as usize) * tl.points.len().max(1)) >> 16).map(|(t, filled)| O { t, filled });
    Some(match rep {
        Rep::Sample(s) => In::RepOpen(sel(*s)?),
        Rep::SampleCancelInFlight(None) => In::RepCancelInFlight(None),
        Rep::SampleCancelInFlight(Some(s)) => In::RepCancelInFlight(Some(sel(*s)?)),
        Rep::TerminalState { as_open } => match tl.terminal {
            Terminal::StillOpen => return None,
            Terminal::FullyFilled => {
                if *as_open {
                    In::RepOpen(O { t: tl.t_end(), filled: QTY })
                } else {
                    In::RepInactive(Inactive::FullyFilled)
                }
            }
            Terminal::Cancelled => In::RepInactive(Inactive::Cancelled(tl.t_end())),
            Terminal::Expired => In::RepInactive(Inactive::Expired),
            Terminal::OpenFailed => In::RepInactive(Inactive::OpenFailed),
        },
        Rep::OpenInFlight => In::RepOpenInFlight,
        Rep::Open { t, filled } => In::RepOpen(O { t: *t as i64, filled: (*filled).min(QTY) }),
        Rep::OpenAmended { t, filled } => In::RepOpenAmended(O { t: *t as i64, filled: (*filled).min(QTY + 2) }),
        Rep::CancelInFlight { open } => In::RepCancelInFlight(open.map(|(t, f)| O { t: t as i64, filled: f.min(QTY - 1) })),
        Rep::FullyFilled => In::RepInactive(Inactive::FullyFilled),
        Rep::Cancelled { t } => In::RepInactive(Inactive::Cancelled(*t as i64)),
        Rep::Expired => In::RepInactive(Inactive::Expired),
        Rep::OpenFailed => In::RepInactive(Inactive::OpenFailed),
    })
}

/// Resolve the op list into concrete (cid, input) steps (packed snapshots stay grouped), inserting
/// the implicit `OpenSent` before the first touch of an engine-originated order and dropping a
/// second `OpenSent` for the same cid (client order ids are unique per open request).
fn resolve(case: &OrdersCase) -> Vec<Vec<(u8, In)>> {
    let mut sent = [false; N_CIDS as usize];
    let mut steps: Vec<Vec<(u8, In)>> = Vec::new();
    let mut ensure_sent = |cid: u8, steps: &mut Vec<Vec<(u8, In)>>, sent: &mut [bool; N_CIDS as usize]| {
        if case.timelines[cid as usize].sent_by_engine && !sent[cid as usize] {
            sent[cid as usize] = true;
            steps.push(vec![(cid, In::OpenSent)]);
        }
    };
    for op in &case.ops {
        match op {
            Op::OpenSent { cid } => {
                let cid = cid % N_CIDS;
                if case.timelines[cid as usize].sent_by_engine && !sent[cid as usize] {
                    sent[cid as usize] = true;
                    steps.push(vec![(cid, In::OpenSent)]);
                }
            }
            Op::CancelSent { cid } => {
                let cid = cid % N_CIDS;
                ensure_sent(cid, &mut steps, &mut sent);
                steps.push(vec![(cid, In::CancelSent)]);
            }
            Op::Report { cid, rep } => {
                let cid = cid % N_CIDS;
                if let Some(input) = resolve_rep(case, cid, rep) {
                    ensure_sent(cid, &mut steps, &mut sent);
                    steps.push(vec![(cid, input)]);
                }
            }
            Op::CancelResp { cid, ok, t } => {
                let cid = cid % N_CIDS;
                ensure_sent(cid, &mut steps, &mut sent);
                let tl = &case.timelines[cid as usize];
                let input = if *ok && (!case.consistent || tl.terminal == Terminal::Cancelled) {
                    In::CancelOk(if case.consistent { tl.t_end() } else { *t as i64 })
                } else {
                    In::CancelErr(*t)
                };
                steps.push(vec![(cid, input)]);
            }
            Op::BatchSent { cids, cancel } => {
                let mut distinct: Vec<u8> = Vec::new();
                for c in cids {
                    let c = c % N_CIDS;
                    if !distinct.contains(&c) {
                        distinct.push(c);
                    }
                }
                let mut group = Vec::new();
                for cid in distinct {
                    if *cancel {
                        ensure_sent(cid, &mut steps, &mut sent);
                        group.push((cid, In::CancelSent));
                    } else if case.timelines[cid as usize].sent_by_engine && !sent[cid as usize] {
                        sent[cid as usize] = true;
                        group.push((cid, In::OpenSent));
                    }
                }
                if !group.is_empty() {
                    steps.push(group);
                }
            }
            Op::PackedSnapshot { reports } => {
                let mut group = Vec::new();
                for (cid, rep) in reports {
                    let cid = cid % N_CIDS;
                    if let Some(input) = resolve_rep(case, cid, rep) {
                        ensure_sent(cid, &mut steps, &mut sent);
                        group.push((cid, input));
                    }
                }
                if !group.is_empty() {
                    steps.push(group);
                }
            }
        }
    }
    steps
}

fn drive<B: Backend>(name: &str, backend: &mut B, p: &Params, steps: &[Vec<(u8, In)>], rep: &mut CaseReport, shape: &mut Shape) -> bool {
    let mut model: Vec<M> = vec![M::Untracked; N_CIDS as usize];
    let mut cancel_requested = [false; N_CIDS as usize];
    let mut terminated = [false; N_CIDS as usize];
    for (n, group) in steps.iter().enumerate() {
        let before: Vec<Result<M, String>> = (0..N_CIDS).map(|c| backend.get(p, c)).collect();
        if group.len() == 1 {
            backend.apply(p, group[0].0, &group[0].1);
        } else if group.iter().all(|(_, i)| matches!(i, In::OpenSent)) || group.iter().all(|(_, i)| matches!(i, In::CancelSent)) {
            shape.batched = true;
            backend.apply_batch(p, group);
        } else {
            shape.packed = true;
            backend.apply_packed(p, group);
        }
        // model: apply the group's inputs in order; allowed sets per cid compose
        let mut allowed: Vec<Vec<M>> = model.iter().map(|m| vec![m.clone()]).collect();
        for (cid, input) in group {
            let c = *cid as usize;
            shape.cids_touched[c] = true;
            // shape bookkeeping (on the model state before this input)
            for m in &allowed[c] {
                match input {
                    In::RepOpen(o) => {
                        if cancel_requested[c] {
                            shape.open_after_cancel_request = true;
                        }
                        if let Some(h) = m.held() {
                            if o.t < h.t {
                                shape.stale_report = true;
                            }
                        }
                        if o.filled >= QTY && m.tracked() {
                            shape.zero_remaining_for_tracked = true;
                        }
                        if terminated[c] && !m.tracked() {
                            shape.resurrected_after_terminal = true;
                        }
                    }
                    In::CancelErr(_) => {
                        if matches!(m, M::CancelInFlight(Some(_))) {
                            shape.failed_cancel_restored = true;
                        }
                    }
                    _ => {}
                }
            }
            match input {
                In::CancelSent => cancel_requested[c] = true,
                In::RepInactive(_) | In::CancelOk(_) => terminated[c] = true,
                _ => {}
            }
            let mut next: Vec<M> = Vec::new();
            for m in &allowed[c] {
                for s in model_step(m, input) {
                    if !next.contains(&s) {
                        next.push(s);
                    }
                }
            }
            allowed[c] = next;
        }
        // compare
        for cid in 0..N_CIDS {
            let c = cid as usize;
            let after = match backend.get(p, cid) {
                Ok(a) => a,
                Err(e) => {
                    rep.fail(format!("{name}:entry-corrupted"), format!("step {n} {group:?}: {e}"));
                    return false;
                }
            };
            let touched = group.iter().any(|(g, _)| *g == cid);
            if !touched {
                // (ii) reports about one order never change another
                if before[c].as_ref().ok() != Some(&after) {
                    rep.fail(format!("{name}:other-order-changed"), format!("step {n} {group:?} changed untouched {}: {:?} -> {:?}", cid_name(cid), before[c], after));
                    return false;
                }
                continue;
            }
            // (iii) an inactive report / confirmed cancel as the last input for the cid leaves it untracked
            if let Some((_, last)) = group.iter().rev().find(|(g, _)| *g == cid) {
                if matches!(last, In::RepInactive(_) | In::CancelOk(_)) && after.tracked() {
                    rep.fail(format!("{name}:still-tracked-after-terminal-report"), format!("step {n} {group:?}: {} still tracked as {:?}", cid_name(cid), after));
                    return false;
                }
            }
            // (i) held exchange data never moves back while the order stays tracked
            if let (Ok(b), true) = (&before[c], group.iter().filter(|(g, _)| *g == cid).count() == 1) {
                if let (Some(hb), true) = (b.held(), after.tracked()) {
                    let went_through_untracked = false;
                    match after.held() {
                        Some(ha) if ha.t < hb.t && !went_through_untracked => {
                            rep.fail(format!("{name}:timestamp-moved-back"), format!("step {n} {group:?}: {} held t={} now t={}", cid_name(cid), hb.t, ha.t));
                            return false;
                        }
                        None if !matches!(group.iter().find(|(g, _)| *g == cid).map(|(_, i)| i), Some(In::OpenSent)) => {
                            rep.fail(format!("{name}:held-data-dropped"), format!("step {n} {group:?}: {} lost its exchange-confirmed data: {:?} -> {:?}", cid_name(cid), b, after));
                            return false;
                        }
                        _ => {}
                    }
                }
            }
            // lifecycle model
            if !allowed[c].contains(&after) {
                let sig = match (&after, allowed[c].first()) {
                    (a, Some(M::Untracked)) if a.tracked() && allowed[c].len() == 1 => "tracked-but-lifecycle-says-untracked",
                    (M::Untracked, _) => "untracked-but-lifecycle-says-tracked",
                    _ => "state-differs-from-lifecycle",
                };
                rep.fail(format!("{name}:{sig}"), format!(
                    "step {n} {group:?}: {} was {:?}, is {:?}, documented lifecycle allows {:?}",
                    cid_name(cid), before[c], after, allowed[c]
                ));
                return false;
            }
            model[c] = after;
        }
        // nothing but the known cids is tracked
        let tracked_model = model.iter().filter(|m| m.tracked()).count();
        if backend.all_cids_tracked() != tracked_model {
            rep.fail(format!("{name}:extra-entries"), format!("step {n}: {} entries tracked, model has {}", backend.all_cids_tracked(), tracked_model));
            return false;
        }
    }
    true
}

pub struct OrdersLifecycle;

fn timeline() -> impl Strategy<Value = Timeline> {
    (
        prop::collection::vec((1u8..4, 0u8..3), 0..5),
        prop_oneof![
            2 => Just(Terminal::StillOpen),
            3 => Just(Terminal::FullyFilled),
            3 => Just(Terminal::Cancelled),
            1 => Just(Terminal::Expired),
            1 => Just(Terminal::OpenFailed),
        ],
        prop::bool::weighted(0.7),
    )
        .prop_map(|(points, terminal, sent_by_engine)| {
            // an order that failed to open never had open samples
            let points = if terminal == Terminal::OpenFailed { vec![] } else { points };
            Timeline { points, terminal, sent_by_engine }
        })
}

fn rep_consistent() -> impl Strategy<Value = Rep> {
    prop_oneof![
        8 => any::<u16>().prop_map(Rep::Sample),
        1 => prop::option::of(any::<u16>()).prop_map(Rep::SampleCancelInFlight),
        3 => any::<bool>().prop_map(|as_open| Rep::TerminalState { as_open }),
        1 => Just(Rep::OpenInFlight),
    ]
}

fn rep_wild() -> impl Strategy<Value = Rep> {
    prop_oneof![
        1 => Just(Rep::OpenInFlight),
        8 => (0u8..12, 0u8..=QTY).prop_map(|(t, filled)| Rep::Open { t, filled }),
        2 => (0u8..12, 0u8..=QTY + 2).prop_map(|(t, filled)| Rep::OpenAmended { t, filled }),
        2 => prop::option::of((0u8..12, 0u8..QTY)).prop_map(|open| Rep::CancelInFlight { open }),
        1 => Just(Rep::FullyFilled),
        1 => (0u8..12).prop_map(|t| Rep::Cancelled { t }),
        1 => Just(Rep::Expired),
        1 => Just(Rep::OpenFailed),
    ]
}

fn op(consistent: bool) -> BoxedStrategy<Op> {
    let rep: BoxedStrategy<Rep> = if consistent { rep_consistent().boxed() } else { rep_wild().boxed() };
    prop_oneof![
        1 => (0u8..N_CIDS).prop_map(|cid| Op::OpenSent { cid }),
        3 => (0u8..N_CIDS).prop_map(|cid| Op::CancelSent { cid }),
        10 => (0u8..N_CIDS, rep.clone()).prop_map(|(cid, rep)| Op::Report { cid, rep }),
        3 => (0u8..N_CIDS, any::<bool>(), 0u8..12).prop_map(|(cid, ok, t)| Op::CancelResp { cid, ok, t }),
        1 => prop::collection::vec((0u8..N_CIDS, rep), 1..4).prop_map(|reports| Op::PackedSnapshot { reports }),
        2 => (prop::collection::vec(0u8..N_CIDS, 2..4), any::<bool>()).prop_map(|(cids, cancel)| Op::BatchSent { cids, cancel }),
    ]
    .boxed()
}

impl Check for OrdersLifecycle {
    type Case = OrdersCase;
    const NAME: &'static str = "orders_lifecycle";

    fn normalise(mut case: OrdersCase) -> OrdersCase {
        case.timelines.truncate(N_CIDS as usize);
        while case.timelines.len() < N_CIDS as usize {
            case.timelines.push(Timeline { points: vec![], terminal: Terminal::StillOpen, sent_by_engine: case.timelines.len() % 2 == 0 });
        }
        for t in &mut case.timelines {
            t.points.truncate(6);
            for p in &mut t.points {
                *p = (1 + p.0 % 3, p.1 % 3);
            }
            if t.terminal == Terminal::OpenFailed {
                t.points.clear();
            }
        }
        case
    }


    fn strategy(tier: Tier) -> BoxedStrategy<OrdersCase> {
        let max = match tier {
            Tier::Quick => 40,
            Tier::Thorough => 70,
        };
        prop::bool::weighted(0.8)
            .prop_flat_map(move |consistent| {
                (
                    Just(consistent),
                    prop::collection::vec(timeline(), N_CIDS as usize),
                    prop::collection::vec(op(consistent), 0..max),
                    prop::bool::weighted(0.3),
                )
            })
            .prop_map(|(consistent, timelines, ops, share_names)| OrdersCase { consistent, timelines, ops, share_names })
            .boxed()
    }

    fn eval(case: &OrdersCase) -> CaseReport {
        let mut rep = CaseReport::new();
        ensure!(rep, case.timelines.len() == N_CIDS as usize, "bad-case", "case must carry {N_CIDS} timelines");
        let indexed = world::index(&world_defs());
        let state = world::engine_state(&indexed, TradingState::Disabled);
        let place: Vec<(ExchangeIndex, InstrumentIndex)> = (0..N_CIDS)
            .map(|cid| {
                let i = InstrumentIndex(cid as usize % indexed.instruments().len());
                let e = indexed.instruments()[i.index()].value.exchange.key;
                (e, i)
            })
            .collect();
        let p = Params { place, share: case.share_names };
        let steps = resolve(case);
        let mut shape = Shape::default();

        let mut bare = Bare(Orders::default());
        if !drive("orders", &mut bare, &p, &steps, &mut rep, &mut shape) {
            return rep;
        }
        let mut engine = EngineLayer(state.clone());
        if !drive("engine-state", &mut engine, &p, &steps, &mut rep, &mut shape) {
            return rep;
        }
        // engine layer: order reports touch nothing but orders (and account connectivity)
        let mut expected = state;
        for (i, (_, st)) in engine.0.instruments.0.iter().enumerate() {
            expected.instruments.0.get_index_mut(i).unwrap().1.orders = st.orders.clone();
        }
        expected.connectivity = engine.0.connectivity.clone();
        ensure!(rep, expected == engine.0, "engine-state:non-order-state-changed",
            "order reports changed engine state other than orders/connectivity");

        let multi = shape.cids_touched.iter().filter(|b| **b).count() >= 2;
        rep.class_if(case.consistent, "consistent_timeline");
        rep.class_if(!case.consistent, "wild");
        rep.class_if(shape.open_after_cancel_request, "open_report_after_cancel_request");
        rep.class_if(shape.stale_report, "report_older_than_held");
        rep.class_if(shape.zero_remaining_for_tracked, "zero_remaining_open_for_tracked");
        rep.class_if(shape.failed_cancel_restored, "failed_cancel_restores_open");
        rep.class_if(shape.resurrected_after_terminal, "open_report_after_terminal");
        rep.class_if(shape.packed, "packed_account_snapshot");
        rep.class_if(shape.batched, "requests_recorded_as_a_batch");
        rep.class_if(case.share_names, "client_order_id_shared_by_two_instruments");
        rep.class_if(multi, "several_cids_interleaved");
        rep.nontrivial = steps.len() >= 3
            && (shape.open_after_cancel_request
                || shape.stale_report
                || shape.zero_remaining_for_tracked
                || shape.failed_cancel_restored)
            && multi;
        rep
    }
}

// -------------------------------------------------------------------------------------------
// Exhaustive small scope: every sequence of explicit inputs over one (quick) / two (thorough) cids
// -------------------------------------------------------------------------------------------

fn small_alphabet(cids: u8) -> Vec<Op> {
    let mut a = Vec::new();
    for cid in 0..cids {
        a.push(Op::OpenSent { cid });
        a.push(Op::CancelSent { cid });
        for rep in [
            Rep::OpenInFlight,
            Rep::Open { t: 1, filled: 1 },
            Rep::Open { t: 2, filled: 2 },
            Rep::Open { t: 3, filled: QTY },
            Rep::CancelInFlight { open: None },
            Rep::CancelInFlight { open: Some((2, 2)) },
            Rep::FullyFilled,
            Rep::Cancelled { t: 3 },
            Rep::Expired,
            Rep::OpenFailed,
        ] {
            a.push(Op::Report { cid, rep });
        }
        a.push(Op::CancelResp { cid, ok: true, t: 3 });
        a.push(Op::CancelResp { cid, ok: false, t: 0 });
    }
    a
}

fn enumerate(cids: u8, max_len: usize, first_sent: bool) -> impl Iterator<Item = OrdersCase> {
    let alpha = small_alphabet(cids);
    let n = alpha.len();
    let tl = |sent| Timeline { points: vec![], terminal: Terminal::StillOpen, sent_by_engine: sent };
    // order 0 originates from the engine (explicit OpenSent ops are honoured), others from reports
    let timelines = vec![tl(first_sent), tl(!first_sent), tl(true), tl(false)];
    (0..=max_len).flat_map(move |len| {
        let alpha = alpha.clone();
        let timelines = timelines.clone();
        let total = n.pow(len as u32);
        (0..total).map(move |mut idx| {
            let mut ops = Vec::with_capacity(len);
            for _ in 0..len {
                ops.push(alpha[idx % n].clone());
                idx /= n;
            }
            OrdersCase { consistent: false, timelines: timelines.clone(), ops, share_names: false }
        })
    })
}

pub fn run(ctx: &mut Ctx) {
    ctx.rule = "orders_lifecycle: 4 client order ids over 3 instruments / 2 exchanges; history vec(op,0..40|70) of {OpenSent, CancelSent, Report(order snapshot), CancelResp ok / err (6 error kinds incl. 'already cancelled' / 'already filled' rejections), PackedSnapshot, BatchSent (2..3 requests recorded through the batch entry points)}; in 30% of the cases two orders on different instruments carry the same client order id at the engine layer; 80% consistent mode (each order has a hidden exchange timeline — strictly increasing timestamps, non-decreasing partial fills, optional terminal state — and reports are samples of it delivered in any order with duplicates), 20% wild mode (arbitrary timestamps/fills). Each history is applied to a bare Orders map and to EngineState::update_from_account/record_in_flight_*. non-trivial = >=3 resolved steps AND >=2 cids touched AND at least one of {open report after a cancel request, report older than held data, zero-remaining open report for a tracked order, failed cancel restoring an open order}; distinct by hash of the case. Exhaustive: all sequences over the 14-letter (1 cid, quick) alphabet up to length 3 and, thorough, the 28-letter (2 cids) alphabet up to length 3 plus 1 cid up to length 5.".into();
    ctx.assumptions = vec![
        "client order ids are unique per open request: a second OpenSent for the same cid is not generated; an engine-originated order's first event is its OpenSent".into(),
        "reports about one order agree on its static data (side, price, quantity, exchange order id)".into(),
        "two reports with the same exchange timestamp but different content, and a nothing-left-to-fill open report not newer than held data (both impossible on a consistent exchange timeline) may be honoured or ignored".into(),
    ];
    ctx.run_regressions::<OrdersLifecycle>();
    ctx.run::<OrdersLifecycle>(ctx.tier.pick(120_000, 2_000_000));
    match ctx.tier {
        Tier::Quick => {
            ctx.run_enumerated::<OrdersLifecycle>("exhaustive_1cid_len3_engine_originated", enumerate(1, 3, true));
            ctx.run_enumerated::<OrdersLifecycle>("exhaustive_1cid_len3_report_originated", enumerate(1, 3, false));
        }
        Tier::Thorough => {
            ctx.run_enumerated::<OrdersLifecycle>("exhaustive_1cid_len5_engine_originated", enumerate(1, 5, true));
            ctx.run_enumerated::<OrdersLifecycle>("exhaustive_1cid_len5_report_originated", enumerate(1, 5, false));
            ctx.run_enumerated::<OrdersLifecycle>("exhaustive_2cid_len3", enumerate(2, 3, true));
        }
    }
}

pub fn replay(ctx: &mut Ctx, doc: &Value) -> bool {
    ctx.replay::<OrdersLifecycle>(doc)
}
