//! C08 — Simulated exchange keeps a consistent ledger of balances, orders and fills.
//!
//! Check `mock_ledger`: generated sequences of open-order requests (side, price, quantity sized
//! around the available balance, market/limit, known/unknown instrument) against generated
//! initial balances and fee, applied to `MockExchange::open_order` directly and compared with an
//! independent ledger after every request.
//! Check `mock_exchange_run`: the same sequences (plus queries) through the `MockExecution` client
//! and `MockExchange::run` under tokio's paused clock: one response per request, one balance + one
//! trade notification per accepted order, none per rejected; queries equal the ledger.

use crate::framework::{CaseReport, Check, Ctx, Tier};
use crate::props::gens::{ts, T0_MS};
use barter_execution::{
    AccountEventKind, UnindexedAccountEvent, UnindexedAccountSnapshot,
    balance::{AssetBalance, Balance},
    client::{
        ExecutionClient,
        mock::{MockExecution, MockExecutionClientConfig, MockExecutionConfig},
    },
    error::{ApiError, OrderError},
    exchange::mock::MockExchange,
    order::{
        Order, OrderKey, OrderKind, TimeInForce,
        id::{ClientOrderId, StrategyId},
        request::{OrderRequestOpen, RequestOpen},
        state::Open,
    },
};
use barter_instrument::{
    Side, Underlying,
    asset::name::AssetNameExchange,
    exchange::ExchangeId,
    instrument::{Instrument, name::InstrumentNameExchange},
};
use fnv::FnvHashMap;
use futures::StreamExt;
use proptest::prelude::*;
use rust_decimal::Decimal;
use serde::{Deserialize, Serialize};
use serde_json::Value;
use std::{
    collections::BTreeMap,
    sync::{Arc, Mutex, atomic::{AtomicI64, Ordering}},
    time::Duration,
};
use tokio::sync::{broadcast, mpsc};

const ASSETS: [&str; 4] = ["BTC", "ETH", "USDT", "USD"];

#[derive(Debug, Clone, Copy, PartialEq, Eq, Serialize, Deserialize)]
pub enum Size {
    /// generated quantity (units 0.0001)
    Explicit(u32),
    /// the largest 6-dp quantity the available balance of the spent asset pays for
    AllAvailable,
    /// one 0.000001 more than that
    OneTickOver,
    /// half of it
    HalfAvailable,
}

#[derive(Debug, Clone, Copy, PartialEq, Eq, Serialize, Deserialize)]
pub enum Op {
    Open {
        inst: u8,
        unknown_instrument: bool,
        buy: bool,
        price_c: u32,
        size: Size,
        market: bool,
        /// the request carries the quantity with a minus sign (the exchange reads quantities as
        /// magnitudes, the direction comes from the side)
        #[serde(default)]
        negative_qty: bool,
    },
    QuerySnapshot,
    QueryBalances,
    QueryTrades,
}

#[derive(Debug, Clone, Serialize, Deserialize)]
pub struct MockCase {
    /// initial balance per asset in units of 0.0001 (None = asset not held -> not used by instruments)
    pub balances: Vec<u32>,
    /// (base, quote) asset selectors, base != quote after resolution
    pub instruments: Vec<(u8, u8)>,
    /// fee selector into {0, 0.001, 0.01, 0.1, 0.25}
    pub fee_sel: u8,
    pub latency_ms: u8,
    pub ops: Vec<Op>,
    /// run flavour: the client's clock reads T0 + clock[n % len] seconds when op n is issued (not
    /// monotonic: several clients / a clock stepping back); empty = a steadily advancing clock
    #[serde(default)]
    pub clock: Vec<u16>,
    /// run flavour: the submitter of open request n gives up waiting straight away (its response
    /// channel is gone when the exchange gets to the request); flags taken modulo the length
    #[serde(default)]
    pub abandon: Vec<bool>,
    /// run flavour: cut-off of trade query n in seconds after T0 (0 = everything); modulo the length
    #[serde(default)]
    pub since: Vec<u16>,
    /// run flavour, > 0: the open requests are pipelined — each is submitted (gap - 1) ms after the
    /// previous one without waiting for responses or notifications (queries are left out); everything
    /// is collected at the end
    #[serde(default)]
    pub pipeline_gap: u8,
}

/// the last two are maker-rebate style schedules (a negative percentage)
const FEES: [(i64, u32); 7] = [(0, 0), (1, 3), (1, 2), (1, 1), (25, 2), (-1, 3), (-5, 2)];

struct Setup {
    assets: Vec<AssetNameExchange>,
    balances: BTreeMap<String, Decimal>,
    instruments: Vec<(InstrumentNameExchange, usize, usize)>,
    fee: Decimal,
}

fn setup(case: &MockCase) -> Setup {
    let n_assets = case.balances.len().clamp(2, 4);
    let assets: Vec<AssetNameExchange> = ASSETS[..n_assets].iter().map(|a| AssetNameExchange::new(*a)).collect();
    let mut balances = BTreeMap::new();
    for (i, a) in assets.iter().enumerate() {
        balances.insert(a.to_string(), Decimal::new(*case.balances.get(i).unwrap_or(&0) as i64, 4));
    }
    let mut instruments = Vec::new();
    for (b, q) in &case.instruments {
        let base = *b as usize % n_assets;
        let mut quote = *q as usize % n_assets;
        if quote == base {
            quote = (base + 1) % n_assets;
        }
        let name = InstrumentNameExchange::new(format!("{}{}", ASSETS[base], ASSETS[quote]));
        if !instruments.iter().any(|(n, _, _)| *n == name) {
            instruments.push((name, base, quote));
        }
    }
    if instruments.is_empty() {
        instruments.push((InstrumentNameExchange::new(format!("{}{}", ASSETS[0], ASSETS[1])), 0, 1));
    }
    let (m, s) = FEES[case.fee_sel as usize % FEES.len()];
    Setup { assets, balances, instruments, fee: Decimal::new(m, s) }
}

fn build_exchange(case: &MockCase, s: &Setup, request_rx: mpsc::UnboundedReceiver<barter_execution::exchange::mock::request::MockExchangeRequest>, event_tx: broadcast::Sender<UnindexedAccountEvent>) -> MockExchange {
    let initial_state = UnindexedAccountSnapshot {
        exchange: ExchangeId::Mock,
        balances: s.assets.iter().map(|a| {
            let v = s.balances[&a.to_string()];
            AssetBalance { asset: a.clone(), balance: Balance::new(v, v), time_exchange: ts(T0_MS) }
        }).collect(),
        instruments: vec![],
    };
    let config = MockExecutionConfig { mocked_exchange: ExchangeId::Mock, initial_state, latency_ms: case.latency_ms as u64, fees_percent: s.fee };
    let instruments: FnvHashMap<InstrumentNameExchange, Instrument<ExchangeId, AssetNameExchange>> = s
        .instruments
        .iter()
        .map(|(name, b, q)| {
            // the price-denomination flag of an instrument is configuration the exchange copies through
            // unchanged; it does not decide which asset an order spends (a buy spends the underlying's
            // quote asset, a sell its base asset): every other instrument is configured `UnderlyingBase`
            let mut instrument = Instrument::spot(ExchangeId::Mock, format!("mock-{name}"), name.clone(), Underlying { base: s.assets[*b].clone(), quote: s.assets[*q].clone() }, None);
            if (*b + *q) % 2 == 1 {
                instrument.quote = barter_instrument::instrument::quote::InstrumentQuoteAsset::UnderlyingBase;
            }
            (name.clone(), instrument)
        })
        .collect();
    MockExchange::new(config, request_rx, event_tx, instruments)
}

/// Resolve an Open op into a concrete request against the ledger's current balances.
struct Resolved {
    request: OrderRequestOpen<ExchangeId, InstrumentNameExchange>,
    /// spent asset and amount required, None if the instrument is unknown
    spent: Option<(String, Decimal)>,
    value_quote: Decimal,
}

#[allow(clippy::too_many_arguments)]
fn resolve(s: &Setup, ledger: &BTreeMap<String, Decimal>, n: usize, inst: u8, unknown: bool, buy: bool, price_c: u32, size: Size, market: bool, negative_qty: bool) -> Resolved {
    let (name, b, q) = &s.instruments[inst as usize % s.instruments.len()];
    let price = Decimal::new(price_c.max(1) as i64, 2);
    let one_plus_fee = Decimal::ONE + s.fee;
    let spent_asset = if buy { s.assets[*q].to_string() } else { s.assets[*b].to_string() };
    let avail = ledger[&spent_asset];
    // quantity that the available balance pays for, truncated to 6 dp
    let all = if buy { (avail / (price * one_plus_fee)).trunc_with_scale(6) } else { (avail / one_plus_fee).trunc_with_scale(6) };
    let tick = Decimal::new(1, 6);
    let qty = match size {
        Size::Explicit(u) => Decimal::new(u.max(1) as i64, 4),
        Size::AllAvailable => all.max(tick),
        Size::OneTickOver => all + tick,
        Size::HalfAvailable => (all / Decimal::TWO).trunc_with_scale(6).max(tick),
    };
    let required = if buy { price * qty * one_plus_fee } else { qty * one_plus_fee };
    // an instrument the exchange does not list: an unrelated name, or a listed name in the other
    // letter case (a different name)
    let instrument = if unknown { if n % 2 == 0 { InstrumentNameExchange::new(name.name().to_lowercase()) } else { InstrumentNameExchange::new("NOPE") } } else { name.clone() };
    Resolved {
        request: OrderRequestOpen {
            key: OrderKey { exchange: ExchangeId::Mock, instrument, strategy: StrategyId::new("s"), cid: ClientOrderId::new(format!("c{n}")) },
            state: RequestOpen { side: if buy { Side::Buy } else { Side::Sell }, price, quantity: if negative_qty { -qty } else { qty }, kind: if market { OrderKind::Market } else { OrderKind::Limit }, time_in_force: TimeInForce::ImmediateOrCancel },
        },
        spent: (!unknown).then_some((spent_asset, required)),
        value_quote: price * qty,
    }
}

#[derive(Debug, Clone, PartialEq)]
enum Verdict {
    Accept { asset: String, amount: Decimal },
    RejectKind,
    RejectInstrument,
    RejectBalance { asset: String },
}

fn decide(r: &Resolved, ledger: &BTreeMap<String, Decimal>) -> Verdict {
    if r.request.state.kind != OrderKind::Market {
        return Verdict::RejectKind;
    }
    let Some((asset, required)) = &r.spent else { return Verdict::RejectInstrument };
    if ledger[asset] >= *required { Verdict::Accept { asset: asset.clone(), amount: *required } } else { Verdict::RejectBalance { asset: asset.clone() } }
}

#[derive(Debug, Clone)]
struct AcceptedTrade {
    cid: String,
    order_id: String,
    side: Side,
    price: Decimal,
    qty: Decimal,
    fees: Decimal,
    instrument: String,
    /// exchange time of the fill as announced by its trade notification
    time: chrono::DateTime<chrono::Utc>,
}

/// Compare an open_order response with the verdict; returns the order id when accepted.
fn check_response(
    n: usize,
    r: &Resolved,
    v: &Verdict,
    resp: &Order<ExchangeId, InstrumentNameExchange, Result<Open, OrderError<AssetNameExchange, InstrumentNameExchange>>>,
) -> Result<Option<String>, (String, String)> {
    if resp.key != r.request.key || resp.price != r.request.state.price || resp.quantity != r.request.state.quantity || resp.side != r.request.state.side {
        return Err(("response-for-other-request".into(), format!("request {n}: response carries other order data: {resp:?}")));
    }
    match (v, &resp.state) {
        (Verdict::Accept { .. }, Ok(open)) => {
            if open.filled_quantity != r.request.state.quantity {
                return Err(("fill-quantity".into(), format!("request {n}: accepted market order filled {} of {}", open.filled_quantity, r.request.state.quantity)));
            }
            Ok(Some(open.id.0.to_string()))
        }
        (Verdict::Accept { asset, amount }, Err(e)) => Err(("rejected-with-sufficient-balance".into(), format!("request {n} {:?}: account holds enough {asset} (needs {amount}) but the order was rejected: {e:?}", r.request.state))),
        (Verdict::RejectBalance { asset }, Ok(_)) => Err(("accepted-with-insufficient-balance".into(), format!("request {n} {:?}: account does not hold enough {asset} (needs {:?}) but the order was accepted", r.request.state, r.spent))),
        (Verdict::RejectBalance { asset }, Err(OrderError::Rejected(ApiError::BalanceInsufficient(a, _)))) => {
            if a.to_string() != *asset {
                return Err(("insufficient-balance-names-wrong-asset".into(), format!("request {n} {:?}: the asset being spent is {asset}, the rejection names {a}", r.request.state)));
            }
            Ok(None)
        }
        (Verdict::RejectKind, Err(OrderError::Rejected(ApiError::OrderRejected(_)))) => Ok(None),
        (Verdict::RejectInstrument, Err(OrderError::Rejected(ApiError::InstrumentInvalid(i, _)))) if *i == r.request.key.instrument => Ok(None),
        (v, other) => Err(("wrong-rejection".into(), format!("request {n} {:?}: expected {v:?}, response state {other:?}", r.request.state))),
    }
}

fn ledger_of_snapshot(s: &UnindexedAccountSnapshot) -> BTreeMap<String, Decimal> {
    s.balances.iter().map(|b| (b.asset.to_string(), b.balance.total)).collect()
}

pub struct MockLedger;

fn op(allow_queries: bool) -> BoxedStrategy<Op> {
    let open = (
        0u8..3,
        prop::bool::weighted(0.07),
        any::<bool>(),
        prop_oneof![3 => 1u32..100_000, 2 => Just(100u32), 1 => Just(25u32)],
        prop_oneof![
            4 => (1u32..200_000).prop_map(Size::Explicit),
            2 => Just(Size::AllAvailable),
            2 => Just(Size::OneTickOver),
            2 => Just(Size::HalfAvailable),
        ],
        prop::bool::weighted(0.9),
        prop::bool::weighted(0.06),
    )
        .prop_map(|(inst, unknown_instrument, buy, price_c, size, market, negative_qty)| Op::Open { inst, unknown_instrument, buy, price_c, size, market, negative_qty });
    if allow_queries {
        prop_oneof![8 => open, 1 => Just(Op::QuerySnapshot), 1 => Just(Op::QueryBalances), 1 => Just(Op::QueryTrades)].boxed()
    } else {
        open.boxed()
    }
}

/// Projection of an arbitrary decoded case into the generators' domain (fuzz targets).
fn normalise_mock(mut case: MockCase) -> MockCase {
    case.balances.truncate(4);
    while case.balances.len() < 2 {
        case.balances.push(10_000);
    }
    for b in &mut case.balances {
        *b %= 200_000_000;
    }
    case.instruments.truncate(3);
    if case.instruments.is_empty() {
        case.instruments.push((0, 1));
    }
    case.latency_ms %= 50;
    case.ops.truncate(40);
    for op in &mut case.ops {
        if let Op::Open { inst, price_c, size, .. } = op {
            *inst %= 3;
            *price_c = 1 + *price_c % 99_999;
            if let Size::Explicit(q) = size {
                *q = 1 + *q % 199_999;
            }
        }
    }
    if case.ops.is_empty() {
        case.ops.push(Op::QueryBalances);
    }
    for c in &mut case.clock {
        *c %= 40;
    }
    for c in &mut case.since {
        *c %= 40;
    }
    case.clock.truncate(10);
    case.abandon.truncate(10);
    case.since.truncate(6);
    case.pipeline_gap = if case.pipeline_gap & 3 == 3 { 1 + (case.pipeline_gap >> 2) % 13 } else { 0 };
    case
}

fn case_strategy(max_ops: usize, queries: bool) -> BoxedStrategy<MockCase> {
    (
        prop::collection::vec(prop_oneof![4 => 0u32..200_000_000, 1 => Just(0u32), 1 => Just(10_000u32)], 2..=4),
        prop::collection::vec((0u8..4, 0u8..4), 1..=3),
        0u8..7,
        0u8..50,
        prop::collection::vec(op(queries), 1..max_ops),
        if queries { prop_oneof![1 => Just(vec![]), 2 => prop::collection::vec(0u16..40, 2..10)].boxed() } else { Just(vec![]).boxed() },
        if queries { prop_oneof![1 => Just(vec![]), 1 => prop::collection::vec(prop::bool::weighted(0.15), 1..10)].boxed() } else { Just(vec![]).boxed() },
        if queries { prop_oneof![1 => Just(vec![]), 2 => prop::collection::vec(0u16..40, 1..6)].boxed() } else { Just(vec![]).boxed() },
        if queries { prop_oneof![3 => Just(0u8), 1 => 1u8..14].boxed() } else { Just(0u8).boxed() },
    )
        .prop_map(|(balances, instruments, fee_sel, latency_ms, ops, clock, abandon, since, pipeline_gap)| MockCase { balances, instruments, fee_sel, latency_ms, ops, clock, abandon, since, pipeline_gap })
        .boxed()
}

impl Check for MockLedger {
    type Case = MockCase;
    const NAME: &'static str = "mock_ledger";

    fn normalise(case: MockCase) -> MockCase {
        normalise_mock(case)
    }

    fn strategy(tier: Tier) -> BoxedStrategy<MockCase> {
        case_strategy(if tier == Tier::Quick { 30 } else { 60 }, false)
    }

    fn eval(case: &MockCase) -> CaseReport {
        let mut rep = CaseReport::new();
        macro_rules! bad {
            ($sig:expr, $($fmt:tt)+) => {{ rep.fail($sig, format!($($fmt)+)); return rep; }};
        }
        let s = setup(case);
        let (_req_tx, req_rx) = mpsc::unbounded_channel();
        let (event_tx, _event_rx) = broadcast::channel(16);
        let mut exchange = build_exchange(case, &s, req_rx, event_tx);
        let mut ledger = s.balances.clone();
        let mut ids: Vec<String> = Vec::new();
        let (mut acc_sell, mut acc_buy, mut rej_bal, mut rej_other, mut exact_zero) = (0u32, 0u32, 0u32, 0u32, 0u32);

        if ledger_of_snapshot(&exchange.account_snapshot()) != ledger {
            bad!("initial-snapshot", "initial snapshot {:?} != configured balances {ledger:?}", exchange.account_snapshot().balances);
        }
        for (n, op) in case.ops.iter().enumerate() {
            let Op::Open { inst, unknown_instrument, buy, price_c, size, market, negative_qty } = *op else { continue };
            let r = resolve(&s, &ledger, n, inst, unknown_instrument, buy, price_c, size, market, negative_qty);
            let verdict = decide(&r, &ledger);
            let (resp, notes) = exchange.open_order(r.request.clone());
            let accepted_id = match check_response(n, &r, &verdict, &resp) {
                Ok(x) => x,
                Err((sig, msg)) => bad!(sig, "{msg}"),
            };
            match (&verdict, &notes) {
                (Verdict::Accept { asset, amount }, Some(nt)) => {
                    let id = accepted_id.unwrap();
                    if ids.contains(&id) {
                        bad!("order-id-reused", "request {n}: order id {id} was already used ({ids:?})");
                    }
                    ids.push(id.clone());
                    *ledger.get_mut(asset).unwrap() -= *amount;
                    if ledger[asset].is_zero() {
                        exact_zero += 1;
                    }
                    if buy { acc_buy += 1 } else { acc_sell += 1 }
                    // notifications: balance of the spent asset after the debit; the fill
                    let b = &nt.balance.0;
                    if b.asset.to_string() != *asset || b.balance.total != ledger[asset] || b.balance.free != ledger[asset] {
                        bad!("balance-notification", "request {n} {:?}: balance notification {b:?}, expected {asset} = {}", r.request.state, ledger[asset]);
                    }
                    let t = &nt.trade;
                    let want_fee = s.fee * r.value_quote;
                    if t.id.0 != id || t.order_id.0 != id || t.instrument != r.request.key.instrument || t.side != r.request.state.side || t.price != r.request.state.price || t.quantity != r.request.state.quantity || t.strategy != r.request.key.strategy {
                        bad!("trade-notification", "request {n}: fill {t:?} does not match the accepted order (id {id})");
                    }
                    if t.fees.fees != want_fee {
                        bad!("trade-fees", "request {n} {:?}: fill fees {} != fee {} x value {} = {want_fee}", r.request.state, t.fees.fees, s.fee, r.value_quote);
                    }
                }
                (Verdict::Accept { .. }, None) => bad!("no-notifications-for-accepted-order", "request {n}: accepted order without notifications"),
                (_, Some(nt)) => bad!("notifications-for-rejected-order", "request {n}: rejected order produced notifications {nt:?}"),
                (Verdict::RejectBalance { .. }, None) => rej_bal += 1,
                (_, None) => rej_other += 1,
            }
            // balances: exactly the spent asset moved by exactly the amount; nothing negative
            let now = ledger_of_snapshot(&exchange.account_snapshot());
            if now != ledger {
                bad!("ledger-differs", "after request {n} {:?} (verdict {verdict:?}): balances {now:?}, ledger {ledger:?}", r.request.state);
            }
            if now.values().any(|v| *v < Decimal::ZERO) {
                bad!("negative-balance", "after request {n}: {now:?}");
            }
            let snap = exchange.account_snapshot();
            if snap.balances.iter().any(|b| b.balance.total != b.balance.free) {
                bad!("total-free-differ", "after request {n}: {:?}", snap.balances);
            }
        }
        rep.class_if(s.instruments.iter().any(|(_, b, q)| (*b + *q) % 2 == 1), "instrument_configured_underlying_base");
        rep.class_if(acc_sell > 0, "accepted_sell");
        rep.class_if(acc_buy > 0, "accepted_buy");
        rep.class_if(rej_bal > 0, "balance_rejection");
        rep.class_if(rej_other > 0, "kind_or_instrument_rejection");
        rep.class_if(exact_zero > 0, "balance_spent_to_exactly_zero");
        rep.nontrivial = acc_sell > 0 && rej_bal > 0 && rej_other > 0;
        rep
    }
}

// ---------------------------------------------------------------------------------------------

pub struct MockExchangeRun;

impl Check for MockExchangeRun {
    type Case = MockCase;
    const NAME: &'static str = "mock_exchange_run";

    fn normalise(case: MockCase) -> MockCase {
        normalise_mock(case)
    }

    fn strategy(tier: Tier) -> BoxedStrategy<MockCase> {
        case_strategy(if tier == Tier::Quick { 20 } else { 40 }, true)
    }

    fn eval(case: &MockCase) -> CaseReport {
        let mut rep = CaseReport::new();
        macro_rules! bad {
            ($sig:expr, $($fmt:tt)+) => {{ rep.fail($sig, format!($($fmt)+)); return rep; }};
        }
        let s = setup(case);
        let rt = tokio::runtime::Builder::new_current_thread().enable_time().start_paused(true).build().expect("runtime");
        let result: Result<(u32, u32, u32, u32, u32, bool), (String, String)> = rt.block_on(async {
            let (req_tx, req_rx) = mpsc::unbounded_channel();
            let (event_tx, event_rx) = broadcast::channel(1024);
            let exchange = build_exchange(case, &s, req_rx, event_tx);
            let clock_ms = Arc::new(AtomicI64::new(T0_MS));
            let c2 = clock_ms.clone();
            let client = <MockExecution<_> as ExecutionClient>::new(MockExecutionClientConfig {
                mocked_exchange: ExchangeId::Mock,
                clock: move || ts(c2.fetch_add(1, Ordering::SeqCst)),
                request_tx: req_tx,
                event_rx,
            });
            // subscribe before anything is sent
            let mut stream = client.account_stream(&[], &[]).await.map_err(|e| ("account-stream".to_string(), format!("{e:?}")))?;
            let notes: Arc<Mutex<Vec<UnindexedAccountEvent>>> = Arc::new(Mutex::new(Vec::new()));
            let sink = notes.clone();
            let collector = tokio::spawn(async move {
                while let Some(ev) = stream.next().await {
                    sink.lock().unwrap().push(ev);
                }
            });
            let handle = tokio::spawn(exchange.run());

            let mut ledger = s.balances.clone();
            let mut trades: Vec<AcceptedTrade> = Vec::new();
            let (mut accepted, mut rejected, mut queries) = (0u32, 0u32, 0u32);
            let (mut abandoned_accepted, mut cutoff_queries, mut clock_went_back) = (0u32, 0u32, false);
            let watchdog = Duration::from_secs(3600);
            if case.pipeline_gap > 0 {
                // pipelined submission: nothing is awaited between two requests
                let client = Arc::new(client);
                let mut pending = Vec::new();
                for (n, op) in case.ops.iter().enumerate() {
                    let Op::Open { inst, unknown_instrument, buy, price_c, size, market, negative_qty } = *op else { continue };
                    let r = resolve(&s, &ledger, n, inst, unknown_instrument, buy, price_c, size, market, negative_qty);
                    let verdict = decide(&r, &ledger);
                    let total_after = if let Verdict::Accept { asset, amount } = &verdict {
                        *ledger.get_mut(asset).unwrap() -= *amount;
                        Some((asset.clone(), ledger[asset]))
                    } else {
                        None
                    };
                    let (c, request) = (client.clone(), r.request.clone());
                    let task = tokio::spawn(async move {
                        let req = OrderRequestOpen { key: OrderKey { exchange: request.key.exchange, instrument: &request.key.instrument, strategy: request.key.strategy.clone(), cid: request.key.cid.clone() }, state: request.state.clone() };
                        c.open_order(req).await
                    });
                    pending.push((n, r, verdict, total_after, task));
                    // gap selector 1: a burst — all requests are handed over before the exchange gets to
                    // run, so they sit in its request queue together (served in submission order)
                    if case.pipeline_gap > 1 {
                        tokio::time::sleep(Duration::from_millis(case.pipeline_gap as u64 - 1)).await;
                        // the spawned submission runs before the next one is made
                        tokio::task::yield_now().await;
                    }
                }
                tokio::time::sleep(Duration::from_millis(2 * case.latency_ms as u64 + 200)).await;
                let all: Vec<UnindexedAccountEvent> = notes.lock().unwrap().clone();
                for (n, r, verdict, total_after, task) in pending {
                    let resp = tokio::time::timeout(watchdog, task).await.map_err(|_| ("no-response".to_string(), format!("pipelined request {n}: no response from the exchange")))?.map_err(|e| ("harness".to_string(), format!("{e}")))?;
                    let id = check_response(n, &r, &verdict, &resp)?;
                    match (id, total_after) {
                        (Some(id), Some((asset, total))) => {
                            accepted += 1;
                            let n_trade = all.iter().filter(|e| matches!(&e.kind, AccountEventKind::Trade(t) if t.order_id.0 == id && t.quantity == r.request.state.quantity && t.fees.fees == s.fee * r.value_quote)).count();
                            let n_bal = all.iter().filter(|e| matches!(&e.kind, AccountEventKind::BalanceSnapshot(b) if b.0.asset.to_string() == asset && b.0.balance.total == total)).count();
                            if n_trade != 1 || n_bal < 1 {
                                return Err(("pipelined-notifications".to_string(), format!("pipelined request {n} (one every {} ms, latency {} ms): accepted order {id} was announced by {n_trade} trade and {n_bal} balance ({asset} = {total}) notifications; all notifications: {all:?}", case.pipeline_gap - 1, case.latency_ms)));
                            }
                        }
                        _ => rejected += 1,
                    }
                }
                if all.len() != 2 * accepted as usize {
                    return Err(("notification-multiplicity".to_string(), format!("{} notifications for {accepted} accepted pipelined orders: {all:?}", all.len())));
                }
                let snap = tokio::time::timeout(watchdog, client.account_snapshot(&[], &[])).await.map_err(|_| ("no-response".to_string(), "snapshot query unanswered".to_string()))?.map_err(|e| ("query-failed".to_string(), format!("{e:?}")))?;
                if ledger_of_snapshot(&snap) != ledger {
                    return Err(("snapshot-query".to_string(), format!("after the pipelined requests: account snapshot balances {:?} != ledger {ledger:?}", snap.balances)));
                }
                collector.abort();
                return Ok((accepted, rejected, 1, 0, 0, false));
            }
            for (n, op) in case.ops.iter().enumerate() {
                if !case.clock.is_empty() {
                    let now = T0_MS + 1000 * case.clock[n % case.clock.len()] as i64;
                    if now < clock_ms.load(Ordering::SeqCst) {
                        clock_went_back = true;
                    }
                    clock_ms.store(now, Ordering::SeqCst);
                }
                match *op {
                    Op::Open { inst, unknown_instrument, buy, price_c, size, market, negative_qty } => {
                        let r = resolve(&s, &ledger, n, inst, unknown_instrument, buy, price_c, size, market, negative_qty);
                        let verdict = decide(&r, &ledger);
                        let req = OrderRequestOpen {
                            key: OrderKey { exchange: r.request.key.exchange, instrument: &r.request.key.instrument, strategy: r.request.key.strategy.clone(), cid: r.request.key.cid.clone() },
                            state: r.request.state.clone(),
                        };
                        let before = notes.lock().unwrap().len();
                        let abandon = !case.abandon.is_empty() && case.abandon[n % case.abandon.len()];
                        let id = if abandon {
                            // the request is handed to the exchange, then its submitter stops waiting
                            // (a request timeout): the exchange finds the response channel closed
                            let _ = tokio::time::timeout(Duration::ZERO, client.open_order(req)).await;
                            tokio::time::sleep(Duration::from_millis(case.latency_ms as u64 + 1)).await;
                            let announced = notes.lock().unwrap()[before..].iter().find_map(|e| match &e.kind {
                                AccountEventKind::Trade(t) => Some(t.order_id.0.to_string()),
                                _ => None,
                            });
                            match (&verdict, announced) {
                                (Verdict::Accept { .. }, None) => return Err(("abandoned-request-not-announced".to_string(), format!("request {n} (submitter gave up waiting) is affordable, but no trade notification followed"))),
                                (Verdict::Accept { .. }, Some(id)) => {
                                    abandoned_accepted += 1;
                                    Some(id)
                                }
                                (_, _) => None,
                            }
                        } else {
                            let resp = tokio::time::timeout(watchdog, client.open_order(req)).await.map_err(|_| ("no-response".to_string(), format!("request {n}: no response from the exchange")))?;
                            let id = check_response(n, &r, &verdict, &resp)?;
                            // let the notification task run (same latency as the response)
                            tokio::time::sleep(Duration::from_millis(case.latency_ms as u64 + 1)).await;
                            id
                        };
                        let new: Vec<UnindexedAccountEvent> = notes.lock().unwrap()[before..].to_vec();
                        match (&verdict, id) {
                            (Verdict::Accept { asset, amount }, Some(id)) => {
                                accepted += 1;
                                *ledger.get_mut(asset).unwrap() -= *amount;
                                let n_bal = new.iter().filter(|e| matches!(&e.kind, AccountEventKind::BalanceSnapshot(b) if b.0.asset.to_string() == *asset && b.0.balance.total == ledger[asset])).count();
                                let n_trade = new.iter().filter(|e| matches!(&e.kind, AccountEventKind::Trade(t) if t.order_id.0 == id && t.quantity == r.request.state.quantity)).count();
                                if new.len() != 2 || n_bal != 1 || n_trade != 1 || new.iter().any(|e| e.exchange != ExchangeId::Mock) {
                                    return Err(("notification-multiplicity".to_string(), format!("request {n}: accepted order {id} announced by {new:?}, expected exactly one balance ({asset} = {}) and one trade notification", ledger[asset])));
                                }
                                let time = new.iter().find_map(|e| match &e.kind {
                                    AccountEventKind::Trade(t) => Some(t.time_exchange),
                                    _ => None,
                                }).expect("trade notification counted above");
                                trades.push(AcceptedTrade { cid: r.request.key.cid.0.to_string(), order_id: id, side: r.request.state.side, price: r.request.state.price, qty: r.request.state.quantity, fees: s.fee * r.value_quote, instrument: r.request.key.instrument.to_string(), time });
                            }
                            (_, None) => {
                                rejected += 1;
                                if !new.is_empty() {
                                    return Err(("notifications-for-rejected-order".to_string(), format!("request {n}: rejected order announced {new:?}")));
                                }
                            }
                            _ => unreachable!(),
                        }
                    }
                    Op::QuerySnapshot => {
                        queries += 1;
                        let snap = tokio::time::timeout(watchdog, client.account_snapshot(&[], &[])).await.map_err(|_| ("no-response".to_string(), "snapshot query unanswered".to_string()))?.map_err(|e| ("query-failed".to_string(), format!("{e:?}")))?;
                        if ledger_of_snapshot(&snap) != ledger || snap.exchange != ExchangeId::Mock {
                            return Err(("snapshot-query".to_string(), format!("op {n}: account snapshot balances {:?} != ledger {ledger:?}", snap.balances)));
                        }
                        if snap.instruments.iter().any(|i| !i.orders.is_empty()) {
                            return Err(("snapshot-open-orders".to_string(), format!("op {n}: snapshot lists open orders although every accepted market order is fully filled: {:?}", snap.instruments)));
                        }
                    }
                    Op::QueryBalances => {
                        queries += 1;
                        let b = tokio::time::timeout(watchdog, client.fetch_balances()).await.map_err(|_| ("no-response".to_string(), "balance query unanswered".to_string()))?.map_err(|e| ("query-failed".to_string(), format!("{e:?}")))?;
                        let got: BTreeMap<String, Decimal> = b.iter().map(|x| (x.asset.to_string(), x.balance.total)).collect();
                        if got != ledger {
                            return Err(("balance-query".to_string(), format!("op {n}: fetch_balances {got:?} != ledger {ledger:?}")));
                        }
                    }
                    Op::QueryTrades => {
                        queries += 1;
                        let cutoff = if case.since.is_empty() { 0 } else { case.since[n % case.since.len()] };
                        // odd cut-offs (when fills exist): "everything since the fill I saw", i.e.
                        // exactly the announced time of an accepted fill
                        let since = if cutoff == 0 {
                            ts(0)
                        } else if cutoff % 2 == 1 && !trades.is_empty() {
                            trades[cutoff as usize % trades.len()].time
                        } else {
                            ts(T0_MS + 1000 * cutoff as i64)
                        };
                        let t = tokio::time::timeout(watchdog, client.fetch_trades(since)).await.map_err(|_| ("no-response".to_string(), "trade query unanswered".to_string()))?.map_err(|e| ("query-failed".to_string(), format!("{e:?}")))?;
                        let mut got: Vec<(String, Side, Decimal, Decimal, Decimal, String)> = t.iter().map(|x| (x.order_id.0.to_string(), x.side, x.price, x.quantity, x.fees.fees, x.instrument.to_string())).collect();
                        let mut want: Vec<_> = trades.iter().filter(|x| x.time >= since).map(|x| (x.order_id.clone(), x.side, x.price, x.qty, x.fees, x.instrument.clone())).collect();
                        if cutoff > 0 {
                            cutoff_queries += 1;
                        }
                        // the order of the listing is not stated: compare as sets
                        got.sort_by(|a, b| a.0.cmp(&b.0));
                        want.sort_by(|a, b| a.0.cmp(&b.0));
                        if got != want {
                            return Err(("trade-query".to_string(), format!("op {n}: fetch_trades(since {since}) {got:?} != accepted orders filled at or after it {want:?} (all accepted: {:?})", trades.iter().map(|x| (&x.order_id, x.time)).collect::<Vec<_>>())));
                        }
                    }
                }
            }
            // distinct ids
            let mut ids: Vec<&String> = trades.iter().map(|t| &t.order_id).collect();
            ids.sort();
            ids.dedup();
            if ids.len() != trades.len() {
                return Err(("order-id-reused".to_string(), format!("order ids not distinct: {:?}", trades.iter().map(|t| (&t.cid, &t.order_id)).collect::<Vec<_>>())));
            }
            // total notifications
            tokio::time::sleep(Duration::from_millis(200)).await;
            let total = notes.lock().unwrap().len();
            if total != 2 * accepted as usize {
                return Err(("notification-multiplicity".to_string(), format!("{total} notifications for {accepted} accepted orders")));
            }
            drop(client);
            collector.abort();
            let _ = tokio::time::timeout(Duration::from_secs(10), handle).await;
            Ok((accepted, rejected, queries, abandoned_accepted, cutoff_queries, clock_went_back))
        });
        match result {
            Ok((a, r, q, ab, cq, back)) => {
                rep.class_if(ab > 0, "accepted_order_whose_submitter_gave_up");
                rep.class_if(cq > 0, "trade_query_with_cutoff");
                rep.class_if(back, "client_clock_not_monotonic");
                rep.class_if(a > 0, "accepted_order");
                rep.class_if(r > 0, "rejected_order");
                rep.class_if(q > 0, "query");
                rep.class_if(case.latency_ms > 0, "latency_positive");
                rep.class_if(case.pipeline_gap > 3 && (case.pipeline_gap as u64) <= case.latency_ms as u64 && a >= 2, "pipelined_orders_closer_than_the_latency");
                rep.class_if(case.pipeline_gap == 1 && a + r >= 2, "burst_of_requests_queued_together");
                rep.class_if(FEES[case.fee_sel as usize % FEES.len()].0 < 0 && a > 0, "accepted_order_under_a_rebate_schedule");
                rep.nontrivial = a > 0 && r > 0 && q > 0;
            }
            Err((sig, msg)) => bad!(format!("run:{sig}"), "{msg}"),
        }
        rep
    }
}

pub fn run(ctx: &mut Ctx) {
    ctx.rule = "mock_ledger: 2..4 assets with generated initial balances (incl. zero), 1..3 spot instruments, fee in {0, 0.1%, 1%, 10%, 25%, -0.1%, -5%}, vec(request,1..30|60): side, price (2 dp), quantity explicit or sized against the spent asset's available balance (all of it / one 0.000001 more / half), 10% limit orders, 7% unknown instrument (an unrelated name or a listed name in lower case), 6% of the quantities carry a minus sign (read as magnitudes); checked after every request. mock_exchange_run: same with interleaved snapshot/balance/trade queries through MockExecution + MockExchange::run under the paused clock, latency 0..49 ms; in two thirds of the cases the client clock is a generated non-monotonic sequence and trade queries carry a cut-off — a whole second or exactly the announced time of an accepted fill — (expected = accepted fills announced with a time at or after it); in half of the cases 15% of the open requests are abandoned by their submitter before the exchange answers (still executed, announced and listed iff affordable); in a quarter of the cases the open requests are pipelined instead (a burst queued together, or one every 1..12 ms with nothing awaited in between; responses, notifications and the final balances are collected at the end). non-trivial = (ledger) an accepted sell AND a balance rejection AND a kind/instrument rejection in one history; (run) accepted + rejected + query; distinct by hash of the case.".into();
    ctx.assumptions = vec![
        "balances present for every asset of a configured instrument, total == free (what the builder sets up)".into(),
        "all arithmetic exact: prices 2 dp, quantities <= 6 dp, fees <= 3 dp".into(),
    ];
    ctx.run_regressions::<MockLedger>();
    ctx.run_regressions::<MockExchangeRun>();
    ctx.run::<MockLedger>(ctx.tier.pick(100_000, 1_500_000));
    ctx.run::<MockExchangeRun>(ctx.tier.pick(15_000, 250_000));
}

pub fn replay(ctx: &mut Ctx, doc: &Value) -> bool {
    ctx.replay::<MockLedger>(doc) || ctx.replay::<MockExchangeRun>(doc)
}
