use crate::framework::Ctx;
use serde_json::Value;

pub mod gens;
pub mod world;
pub mod enginekit;
pub mod c01;
pub mod c02;
pub mod c03;
pub mod c04;
pub mod c05;
pub mod c06;
pub mod c07;
pub mod c08;
pub mod c09;
pub mod c10;
pub mod c11;
pub mod c12;
pub mod c13;
pub mod c14;
pub mod c15;
pub mod c16;
pub mod c17;
pub mod c18;
pub mod c19;
pub mod c20;

pub struct Property {
    pub id: &'static str,
    pub run: fn(&mut Ctx),
    pub replay: fn(&mut Ctx, &Value) -> bool,
}

pub const ALL: &[Property] = &[
    Property { id: "C01", run: c01::run, replay: c01::replay },
    Property { id: "C02", run: c02::run, replay: c02::replay },
    Property { id: "C03", run: c03::run, replay: c03::replay },
    Property { id: "C04", run: c04::run, replay: c04::replay },
    Property { id: "C05", run: c05::run, replay: c05::replay },
    Property { id: "C06", run: c06::run, replay: c06::replay },
    Property { id: "C07", run: c07::run, replay: c07::replay },
    Property { id: "C08", run: c08::run, replay: c08::replay },
    Property { id: "C09", run: c09::run, replay: c09::replay },
    Property { id: "C10", run: c10::run, replay: c10::replay },
    Property { id: "C11", run: c11::run, replay: c11::replay },
    Property { id: "C12", run: c12::run, replay: c12::replay },
    Property { id: "C13", run: c13::run, replay: c13::replay },
    Property { id: "C14", run: c14::run, replay: c14::replay },
    Property { id: "C15", run: c15::run, replay: c15::replay },
    Property { id: "C16", run: c16::run, replay: c16::replay },
    Property { id: "C17", run: c17::run, replay: c17::replay },
    Property { id: "C18", run: c18::run, replay: c18::replay },
    Property { id: "C19", run: c19::run, replay: c19::replay },
    Property { id: "C20", run: c20::run, replay: c20::replay },
];
