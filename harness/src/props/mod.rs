use crate::framework::Ctx;
use serde_json::Value;

pub mod gens;
pub mod c05;

pub struct Property {
    pub id: &'static str,
    pub run: fn(&mut Ctx),
    pub replay: fn(&mut Ctx, &Value) -> bool,
}

pub const ALL: &[Property] = &[
    Property { id: "C05", run: c05::run, replay: c05::replay },
];
