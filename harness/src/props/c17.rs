//! C17 — Running dataset statistics equal the statistics of the whole dataset.
//!
//! Check `dataset_summary`: generated decimal sequences are fed to `DataSetSummary::update`; after
//! every update count/sum/mean/variance/std-dev/range are compared with whole-dataset values
//! (exact i128 rationals for the fixed-point class, a two-pass Decimal computation for the
//! wide-magnitude class); the same multiset in a second order must give the same statistics.

use crate::framework::{CaseReport, Check, Ctx, Tier};
use barter::statistic::summary::dataset::DataSetSummary;
use proptest::prelude::*;
use rust_decimal::{Decimal, MathematicalOps};
use serde::{Deserialize, Serialize};
use serde_json::Value;

#[derive(Debug, Clone, Copy, PartialEq, Eq, Serialize, Deserialize)]
pub struct Val {
    pub mantissa: i64,
    pub scale: u8,
    /// ordering key of the second (shuffled) pass
    pub key: u16,
}

#[derive(Debug, Clone, Serialize, Deserialize)]
pub struct DatasetCase {
    /// true: every value is an integer x 1e-6 with |x| <= 1e5 (exact rational oracle)
    pub fixed_point: bool,
    pub values: Vec<Val>,
    /// (only without `fixed_point`) at most 20 values, each mantissa x 0.01 with |x| <= 3e12: single
    /// observations lie 1e12 and more away from the running mean
    #[serde(default)]
    pub huge: bool,
    /// after this many updates (selector) the summary is serialised and restored (serde_json) and
    /// the restored copy carries on
    #[serde(default)]
    pub roundtrip_at: Option<u16>,
}

fn dec_of(case: &DatasetCase, v: &Val) -> Decimal {
    if case.fixed_point {
        Decimal::new(v.mantissa.clamp(-100_000_000_000, 100_000_000_000), 6)
    } else if case.huge {
        Decimal::new(v.mantissa.clamp(-300_000_000_000_000, 300_000_000_000_000), 2)
    } else {
        Decimal::new(v.mantissa, (v.scale % 10) as u32)
    }
}

struct Expected {
    count: Decimal,
    sum: Decimal,
    mean: Decimal,
    variance: Decimal,
    low: Decimal,
    high: Decimal,
    max_abs: Decimal,
}

fn expected_exact(xs: &[i128]) -> Expected {
    // xs in units of 1e-6
    let n = xs.len() as i128;
    let s: i128 = xs.iter().sum();
    let s2: i128 = xs.iter().map(|x| x * x).sum();
    let num = n * s2 - s * s; // >= 0, units 1e-12, to be divided by n^2
    let variance = Decimal::from_i128_with_scale(num, 12) / Decimal::from(n * n);
    let mean = Decimal::from_i128_with_scale(s, 6) / Decimal::from(n);
    let low = *xs.iter().min().unwrap();
    let high = *xs.iter().max().unwrap();
    let max_abs = xs.iter().map(|x| x.abs()).max().unwrap();
    Expected {
        count: Decimal::from(n),
        sum: Decimal::from_i128_with_scale(s, 6),
        mean,
        variance,
        low: Decimal::from_i128_with_scale(low, 6),
        high: Decimal::from_i128_with_scale(high, 6),
        max_abs: Decimal::from_i128_with_scale(max_abs, 6),
    }
}

fn expected_two_pass(xs: &[Decimal]) -> Expected {
    let n = Decimal::from(xs.len());
    let sum: Decimal = xs.iter().copied().sum();
    let mean = sum / n;
    let ss: Decimal = xs.iter().map(|x| (*x - mean) * (*x - mean)).sum();
    Expected {
        count: n,
        sum,
        mean,
        variance: ss / n,
        low: xs.iter().copied().min().unwrap(),
        high: xs.iter().copied().max().unwrap(),
        max_abs: xs.iter().map(|x| x.abs()).max().unwrap(),
    }
}

fn check(rep: &mut CaseReport, tag: &str, n: usize, s: &DataSetSummary, e: &Expected, fixed_point: bool) -> bool {
    macro_rules! bad {
        ($sig:expr, $($fmt:tt)+) => {{
            rep.fail($sig, format!("{tag} after {n} values: {}", format!($($fmt)+)));
            return false;
        }};
    }
    let one = Decimal::ONE;
    let scale = one + e.max_abs;
    // tolerances: Decimal rounds at 28 significant digits; errors accumulate linearly in n <= 400
    let (mean_tol, var_tol) = if fixed_point {
        (Decimal::new(1, 20) * scale, Decimal::new(1, 18) * scale * scale)
    } else {
        (Decimal::new(1, 14) * scale, Decimal::new(1, 12) * scale * scale)
    };
    if s.count != e.count {
        bad!("count", "count {} != {}", s.count, e.count);
    }
    if s.sum != e.sum {
        bad!("sum", "sum {} != {}", s.sum, e.sum);
    }
    if (s.mean - e.mean).abs() > mean_tol {
        bad!("mean", "mean {} != whole-dataset mean {} (tol {mean_tol})", s.mean, e.mean);
    }
    if (s.dispersion.variance - e.variance).abs() > var_tol {
        bad!("variance", "population variance {} != whole-dataset value {} (tol {var_tol})", s.dispersion.variance, e.variance);
    }
    if s.dispersion.variance < Decimal::ZERO {
        bad!("variance-negative", "variance {} is negative", s.dispersion.variance);
    }
    // std-dev is the square root of the population variance
    let sd = s.dispersion.std_dev;
    if sd < Decimal::ZERO {
        bad!("std-dev-negative", "std_dev {sd} is negative");
    }
    let sd_tol = Decimal::new(1, 12) * (one + e.variance) + var_tol;
    if (sd * sd - e.variance).abs() > sd_tol {
        bad!("std-dev", "std_dev {sd} squared = {} != variance {} (tol {sd_tol})", sd * sd, e.variance);
    }
    if let Some(exp_sd) = e.variance.sqrt() {
        let t = Decimal::new(1, 10) * (one + exp_sd) + if fixed_point { Decimal::ZERO } else { Decimal::new(1, 6) * scale };
        // only when variance is comfortably above its own tolerance is sqrt well conditioned
        if e.variance > var_tol * Decimal::from(1_000_000) && (sd - exp_sd).abs() > t {
            bad!("std-dev", "std_dev {sd} != sqrt(variance) {exp_sd}");
        }
    }
    if s.dispersion.range.range() != e.high - e.low {
        bad!("range-width", "range() = {} but the dataset spans [{}, {}] (width {})", s.dispersion.range.range(), e.low, e.high, e.high - e.low);
    }
    if !s.dispersion.range.activated || s.dispersion.range.low != e.low || s.dispersion.range.high != e.high {
        bad!("range", "range [{}, {}] (activated {}) != [{}, {}]", s.dispersion.range.low, s.dispersion.range.high, s.dispersion.range.activated, e.low, e.high);
    }
    if s.mean < e.low - mean_tol || s.mean > e.high + mean_tol {
        bad!("mean-outside-range", "mean {} outside [{}, {}]", s.mean, e.low, e.high);
    }
    true
}

pub struct DatasetSummary;

impl Check for DatasetSummary {
    type Case = DatasetCase;
    const NAME: &'static str = "dataset_summary";

    fn normalise(mut case: DatasetCase) -> DatasetCase {
        if case.fixed_point {
            case.huge = false;
        }
        if case.huge {
            case.values.truncate(20);
        }
        for v in &mut case.values {
            v.mantissa = if case.fixed_point { v.mantissa % 100_000_000_001 } else if case.huge { v.mantissa % 300_000_000_000_001 } else { v.mantissa % 1_000_000_001 };
            v.scale %= 10;
        }
        case
    }


    fn strategy(tier: Tier) -> BoxedStrategy<DatasetCase> {
        let max = match tier {
            Tier::Quick => 120,
            Tier::Thorough => 400,
        };
        let fixed = prop::collection::vec(
            (
                prop_oneof![
                    4 => -100_000_000_000i64..=100_000_000_000,
                    3 => -2_000_000i64..=2_000_000,
                    2 => prop::sample::select(vec![0i64, 1, -1, 1_000_000, 100_000_000_000, -100_000_000_000, 99_999_999_999]),
                    2 => (0i64..4).prop_map(|k| 1_234_567 + k),
                ],
                any::<u16>(),
            ),
            0..max,
        )
        .prop_map(|v| DatasetCase { fixed_point: true, values: v.into_iter().map(|(mantissa, key)| Val { mantissa, scale: 6, key }).collect(), huge: false, roundtrip_at: None });
        let wide = prop::collection::vec(
            (
                prop_oneof![
                    3 => -1_000_000_000i64..=1_000_000_000,
                    2 => -1000i64..=1000,
                    1 => Just(0i64),
                ],
                0u8..10,
                any::<u16>(),
            ),
            0..max,
        )
        .prop_map(|v| DatasetCase { fixed_point: false, values: v.into_iter().map(|(mantissa, scale, key)| Val { mantissa, scale, key }).collect(), huge: false, roundtrip_at: None });
        // ordinary values with a few observations of the order of 1e12
        let huge = prop::collection::vec((prop_oneof![3 => -100_000i64..=100_000, 2 => -300_000_000_000_000i64..=300_000_000_000_000, 1 => prop::sample::select(vec![250_000_000_000_000i64, -250_000_000_000_000, 100_000_000_000_000])], any::<u16>()), 1..20)
            .prop_map(|v| DatasetCase { fixed_point: false, values: v.into_iter().map(|(mantissa, key)| Val { mantissa, scale: 2, key }).collect(), huge: true, roundtrip_at: None });
        let all_equal = (-100_000_000_000i64..=100_000_000_000, 3usize..40)
            .prop_map(|(m, n)| DatasetCase { fixed_point: true, values: (0..n).map(|i| Val { mantissa: m, scale: 6, key: (n - i) as u16 }).collect(), huge: false, roundtrip_at: None });
        (prop_oneof![12 => fixed, 8 => wide, 1 => all_equal, 3 => huge], prop::option::weighted(0.3, any::<u16>()))
            .prop_map(|(mut case, roundtrip_at)| {
                case.roundtrip_at = roundtrip_at;
                case
            })
            .boxed()
    }

    fn eval(case: &DatasetCase) -> CaseReport {
        let mut rep = CaseReport::new();
        let xs: Vec<Decimal> = case.values.iter().map(|v| dec_of(case, v)).collect();
        let ints: Vec<i128> = if case.fixed_point { xs.iter().map(|d| d.mantissa() * 10i128.pow(6 - d.scale())).collect() } else { vec![] };

        // empty dataset: the default summary
        let mut summary = DataSetSummary::default();
        if summary.count != Decimal::ZERO || summary.sum != Decimal::ZERO || summary.dispersion.range.activated {
            rep.fail("default-not-empty", format!("default summary is not empty: {summary:?}"));
            return rep;
        }
        let roundtrip_after = case.roundtrip_at.map(|sel| 1 + ((sel as usize * xs.len().max(1)) >> 16));
        for n in 1..=xs.len() {
            summary.update(xs[n - 1]);
            if roundtrip_after == Some(n) {
                // persist and restore: the restored summary is the same summary and carries on
                let restored: Result<DataSetSummary, _> = serde_json::to_string(&summary).and_then(|text| serde_json::from_str(&text));
                match restored {
                    Ok(r) if r == summary => summary = r,
                    Ok(r) => {
                        rep.fail("serde-roundtrip", format!("after {n} values the summary {summary:?} comes back from serde_json as {r:?}"));
                        return rep;
                    }
                    Err(e) => {
                        rep.fail("serde-roundtrip", format!("after {n} values the summary does not survive serde_json: {e}"));
                        return rep;
                    }
                }
                rep.class("persisted_and_restored_mid_sequence");
            }
            let e = if case.fixed_point { expected_exact(&ints[..n]) } else { expected_two_pass(&xs[..n]) };
            if !check(&mut rep, "arrival order", n, &summary, &e, case.fixed_point) {
                return rep;
            }
        }
        // second order of the same multiset
        if !xs.is_empty() {
            let mut order: Vec<usize> = (0..xs.len()).collect();
            order.sort_by_key(|i| (case.values[*i].key, *i));
            let ys: Vec<Decimal> = order.iter().map(|i| xs[*i]).collect();
            let mut s2 = DataSetSummary::default();
            for y in &ys {
                s2.update(*y);
            }
            let e = if case.fixed_point { expected_exact(&ints) } else { expected_two_pass(&xs) };
            if !check(&mut rep, "shuffled order", xs.len(), &s2, &e, case.fixed_point) {
                return rep;
            }
            if s2.count != summary.count || s2.sum != summary.sum || s2.dispersion.range != summary.dispersion.range {
                rep.fail("order-dependence", format!("count/sum/range differ between two orders of the same values: {summary:?} vs {s2:?}"));
                return rep;
            }
        }
        let distinct = {
            let mut d = xs.clone();
            d.sort();
            d.dedup();
            d.len()
        };
        rep.class(if case.fixed_point { "fixed_point_exact_oracle" } else if case.huge { "observations_1e12_from_the_mean_two_pass_oracle" } else { "wide_magnitudes_two_pass_oracle" });
        rep.class_if(xs.iter().any(|x| x.is_sign_negative() && !x.is_zero()), "has_negative");
        rep.class_if(distinct < xs.len(), "has_repeats");
        rep.class_if(distinct == 1 && xs.len() >= 3, "all_equal");
        rep.class_if(xs.is_empty(), "empty");
        rep.nontrivial = xs.len() >= 3 && distinct >= 2;
        rep
    }
}

pub fn run(ctx: &mut Ctx) {
    ctx.rule = "dataset_summary: 0..120|400 decimal values; class A (60%): integers x 1e-6 with |x| <= 1e5 incl. boundary values, near-equal clusters and repeats, oracle = exact i128 rationals (n*sum(x^2)-sum(x)^2)/n^2; class B (40%): mantissa up to 1e9 with 0..9 decimal places (magnitudes 1e-9..1e9 mixed), oracle = two-pass Decimal computation; class C (12%): at most 20 values of which some are of the order of 1e12 (single observations 1e12 and more from the running mean), same oracle. In 30% of the cases the summary is serialised and restored (serde_json) mid-sequence and the restored copy carries on. Checked after EVERY update and again for a second ordering of the same multiset. non-trivial = n >= 3 with >= 2 distinct values; distinct by hash of the case.".into();
    ctx.assumptions = vec![
        "|value| <= 1e9 so that 400 squared deviations fit Decimal's 96-bit mantissa".into(),
        "tolerances: class A mean 1e-20(1+max|x|), variance 1e-18(1+max|x|)^2; class B mean 1e-14(1+max|x|), variance 1e-12(1+max|x|)^2; count, sum and range exact".into(),
    ];
    ctx.run_regressions::<DatasetSummary>();
    ctx.run::<DatasetSummary>(ctx.tier.pick(20_000, 300_000));
}

pub fn replay(ctx: &mut Ctx, doc: &Value) -> bool {
    ctx.replay::<DatasetSummary>(doc)
}
