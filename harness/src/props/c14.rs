//! C14 — Global connectivity is healthy exactly when every exchange link is.
//!
//! Check `connectivity_model`: generated sequences over {market item, account item, market
//! reconnecting, account reconnecting} x exchange are processed by `Engine::process` (with a
//! counting on-disconnect strategy); after every event the per-exchange flags, the global flag,
//! the audit output and the strategy's call log are compared with a two-flags-per-exchange model; a state replica fed with the same events must show the same connectivity.

use crate::framework::{CaseReport, Check, Ctx, Tier};
use crate::props::enginekit::{EvSpec, Link, Resolver, Rig};
use crate::props::world::{InstrumentDef, KindDef, UnitDef, simple_world};
use barter::engine::{
    EngineOutput, Processor,
    audit::EngineAudit,
    state::{connectivity::Health, trading::TradingState},
};
use proptest::prelude::*;
use serde::{Deserialize, Serialize};
use serde_json::Value;

#[derive(Debug, Clone, Copy, PartialEq, Eq, Serialize, Deserialize)]
pub enum Kind {
    MarketItem,
    AccountItem,
    MarketReconnecting,
    AccountReconnecting,
}

#[derive(Debug, Clone, Copy, PartialEq, Eq, Serialize, Deserialize)]
pub struct ConnEv {
    pub kind: Kind,
    pub ex: u8,
    /// variety selector for the concrete item
    pub variant: u8,
}

#[derive(Debug, Clone, Serialize, Deserialize)]
pub struct ConnCase {
    pub defs: Vec<InstrumentDef>,
    pub events: Vec<ConnEv>,
    /// bit e set: the engine state is built with seeded balances for the assets of exchange index e
    #[serde(default)]
    pub seed_balances: u8,
    /// algorithmic trading is enabled and the strategy returns an order on every tick (so the audit
    /// of a tick holds the strategy's orders next to whatever else the tick produced)
    #[serde(default)]
    pub strategy_trades: bool,
}

pub struct ConnectivityModel;

fn kind() -> impl Strategy<Value = Kind> {
    prop_oneof![
        3 => Just(Kind::MarketItem),
        3 => Just(Kind::AccountItem),
        1 => Just(Kind::MarketReconnecting),
        1 => Just(Kind::AccountReconnecting),
    ]
}

impl Check for ConnectivityModel {
    type Case = ConnCase;
    const NAME: &'static str = "connectivity_model";

    fn normalise(mut case: ConnCase) -> ConnCase {
        case.defs = crate::props::world::normalise_defs(case.defs, true);
        case
    }


    fn strategy(tier: Tier) -> BoxedStrategy<ConnCase> {
        let max = match tier {
            Tier::Quick => 40,
            Tier::Thorough => 80,
        };
        (simple_world(1..=4, 0..3), prop::collection::vec((kind(), 0u8..4, any::<u8>()), 0..max), prop_oneof![2 => Just(0u8), 1 => 1u8..16], prop::bool::weighted(0.3))
            .prop_map(|(defs, evs, seed_balances, strategy_trades)| ConnCase { defs, events: evs.into_iter().map(|(kind, ex, variant)| ConnEv { kind, ex, variant }).collect(), seed_balances, strategy_trades })
            .boxed()
    }

    fn eval(case: &ConnCase) -> CaseReport {
        let mut rep = CaseReport::new();
        macro_rules! bad {
            ($sig:expr, $($fmt:tt)+) => {{ rep.fail($sig, format!($($fmt)+)); return rep; }};
        }
        let mut rig = {
            let indexed = crate::props::world::index(&case.defs);
            // balances known before the run (a builder option) for the exchanges selected by the mask
            let seeded: Vec<barter_instrument::Keyed<barter_instrument::asset::ExchangeAsset<barter_instrument::asset::name::AssetNameInternal>, barter_execution::balance::Balance>> = indexed
                .assets()
                .iter()
                .filter(|a| indexed.find_exchange_index(a.value.exchange).is_ok_and(|e| case.seed_balances & (1 << e.index()) != 0))
                .map(|a| barter_instrument::Keyed::new(barter_instrument::asset::ExchangeAsset::new(a.value.exchange, a.value.asset.name_internal.clone()), barter_execution::balance::Balance::new(rust_decimal::Decimal::from(1000), rust_decimal::Decimal::from(1000))))
                .collect();
            let state = barter::engine::state::EngineState::builder(&indexed, barter::engine::state::global::DefaultGlobalData, barter::engine::state::instrument::data::DefaultInstrumentMarketData::default)
                .time_engine_start(crate::props::gens::ts(crate::props::gens::T0_MS))
                .trading_state(if case.strategy_trades { TradingState::Enabled } else { TradingState::Disabled })
                .balances(seeded)
                .build();
            Rig::with_state(indexed, state, &[Link::Healthy; 8])
        };
        let n_ex = rig.n_exchanges();
        let indexed = rig.indexed.clone();
        let mut resolver = Resolver::new(&indexed);
        // model: (market healthy, account healthy) per exchange index; all reconnecting at start
        let mut model = vec![(false, false); n_ex];
        let mut expected_calls: Vec<barter_instrument::exchange::ExchangeId> = Vec::new();
        let mut toggles = 0u32;
        let mut late_items = 0u32;
        let mut prev_global = false;
        // an observer following the engine through its audit stream (state replica): its view of the
        // links and of the global flag is the engine's
        let mut replica = {
            use barter::engine::audit::{AuditTick, Auditor};
            let snapshot: AuditTick<crate::props::world::DefaultState> = <crate::props::enginekit::TestEngine as Auditor<crate::props::c10::Audit>>::audit_snapshot(&mut rig.engine);
            barter::engine::audit::state_replica::StateReplicaManager::new(snapshot, ())
        };

        // initial state
        if rig.engine.state.connectivity.global != Health::Reconnecting {
            bad!("initial-global", "global connectivity starts {:?}", rig.engine.state.connectivity.global);
        }
        for i in 0..n_ex {
            let st = rig.engine.state.connectivity.connectivity_index(&barter_instrument::exchange::ExchangeIndex(i));
            if st.market_data != Health::Reconnecting || st.account != Health::Reconnecting {
                bad!("initial-link-flags", "before any event exchange {i} shows market {:?} / account {:?} (balances seeded through the builder: mask {:#b})", st.market_data, st.account, case.seed_balances);
            }
        }

        for (n, ev) in case.events.iter().enumerate() {
            let ex = ev.ex as usize % n_ex;
            let ex_id = rig.exchange_id(ex);
            // instruments / assets of that exchange
            let insts: Vec<usize> = (0..rig.n_instruments()).filter(|i| rig.exchange_of(*i).index() == ex).collect();
            let assets: Vec<usize> = (0..rig.n_assets()).filter(|a| indexed.assets()[*a].value.exchange == ex_id).collect();
            let inst = insts[ev.variant as usize % insts.len()] as u8;
            let spec = match ev.kind {
                Kind::MarketItem => {
                    if ev.variant % 2 == 0 {
                        EvSpec::MarketTrade { inst, price_q: 400 + ev.variant as u32, dt: 10 }
                    } else {
                        EvSpec::MarketL1 { inst, bid_q: Some((400, 1)), ask_q: Some((404, 2)), dt: 10 }
                    }
                }
                Kind::AccountItem => match ev.variant % 6 {
                    0 => EvSpec::Balance { asset: assets[ev.variant as usize % assets.len()] as u8, total: 100 + ev.variant as u32, dt: 10 },
                    1 => EvSpec::OrderOpen { cid: ev.variant as u16 % 5, inst, buy: true, filled: 1, dt: 10 },
                    2 => EvSpec::Fill { inst, buy: ev.variant % 2 == 0, price_q: 400, qty: 10, fee_bp: 0, dt: 10 },
                    // what the execution manager reports when a request got no answer in time
                    3 => EvSpec::CancelResp { cid: ev.variant as u16 % 5, inst, ok: false, dt: 10 },
                    4 => EvSpec::OrderInactive { cid: ev.variant as u16 % 5, inst, buy: true, kind: crate::props::enginekit::InactiveKind::OpenTimedOut, dt: 10 },
                    _ => EvSpec::CancelResp { cid: ev.variant as u16 % 5, inst, ok: true, dt: 10 },
                },
                Kind::MarketReconnecting => EvSpec::MarketReconnecting { ex: ex as u8 },
                Kind::AccountReconnecting => EvSpec::AccountReconnecting { ex: ex as u8 },
            };
            let mut event = resolver.resolve(&spec);
            // an item the venue stamped long before it was received (buffered on the exchange side, a
            // re-subscribe replaying the last print, skewed clocks): still an item of that link
            let late = ev.kind == Kind::MarketItem && ev.variant % 5 == 4;
            if let (true, barter::EngineEvent::Market(barter_data::streams::consumer::MarketStreamEvent::Item(m))) = (late, &mut event) {
                m.time_received = m.time_exchange + chrono::TimeDelta::seconds(45 + ev.variant as i64);
                late_items += 1;
            }
            if case.strategy_trades {
                let open = resolver.open_request(&crate::props::enginekit::ReqSpec { inst, cid: 0, refuse: false, unknown_exchange: false, buy: true });
                rig.engine.strategy.push_script(vec![], vec![open]);
            }
            let audit = rig.engine.process(event.clone());
            replica.update_from_event(event);
            if replica.state_replica.event.connectivity != rig.engine.state.connectivity {
                bad!("replica-connectivity", "after event {n} {ev:?}: the state replica fed with the same event shows connectivity {:?}, the engine {:?}", replica.state_replica.event.connectivity, rig.engine.state.connectivity);
            }

            // model step
            match ev.kind {
                Kind::MarketItem => model[ex].0 = true,
                Kind::AccountItem => model[ex].1 = true,
                Kind::MarketReconnecting => {
                    model[ex].0 = false;
                    expected_calls.push(ex_id);
                }
                Kind::AccountReconnecting => {
                    model[ex].1 = false;
                    expected_calls.push(ex_id);
                }
            }

            // flags
            let conn = &rig.engine.state.connectivity;
            for (i, (m, a)) in model.iter().enumerate() {
                let st = conn.connectivity_index(&barter_instrument::exchange::ExchangeIndex(i));
                let got = (st.market_data == Health::Healthy, st.account == Health::Healthy);
                if got != (*m, *a) {
                    bad!("link-flags", "after event {n} {ev:?}: exchange {i} flags (market,account) healthy = {got:?}, model {:?}", (m, a));
                }
            }
            let all = model.iter().all(|(m, a)| *m && *a);
            if (conn.global == Health::Healthy) != all {
                bad!("global-iff-all-links", "after event {n} {ev:?}: global = {:?} but all-links-healthy = {all} (flags {model:?})", conn.global);
            }
            if all != prev_global {
                toggles += 1;
                prev_global = all;
            }

            // audit output: exactly one disconnect output for a notice, none for an item
            let outputs: Vec<_> = match &audit {
                EngineAudit::Process(p) => p.outputs.iter().cloned().collect(),
                EngineAudit::FeedEnded => bad!("unexpected-feed-ended", "process returned FeedEnded"),
            };
            let disconnects: Vec<_> = outputs
                .iter()
                .filter_map(|o| match o {
                    EngineOutput::MarketDisconnect(e) => Some(("market", *e)),
                    EngineOutput::AccountDisconnect(e) => Some(("account", *e)),
                    _ => None,
                })
                .collect();
            let expected: Vec<(&str, barter_instrument::exchange::ExchangeId)> = match ev.kind {
                Kind::MarketReconnecting => vec![("market", ex_id)],
                Kind::AccountReconnecting => vec![("account", ex_id)],
                _ => vec![],
            };
            if disconnects != expected {
                bad!("disconnect-output", "event {n} {ev:?}: audit disconnect outputs {disconnects:?}, expected {expected:?}");
            }
            // strategy invoked exactly once per notice, for the right exchange
            let calls = rig.engine.strategy.log.lock().unwrap().disconnect_calls.clone();
            if calls != expected_calls {
                bad!("on-disconnect-calls", "after event {n} {ev:?}: on_disconnect called for {calls:?}, expected {expected_calls:?}");
            }
        }
        rep.class_if(n_ex >= 2, "two_or_more_exchanges");
        rep.class_if(toggles >= 2, "global_toggled_twice");
        rep.class_if(toggles >= 1, "global_became_healthy");
        rep.class_if(!expected_calls.is_empty(), "has_disconnect_notice");
        rep.class_if(case.seed_balances != 0, "state_built_with_seeded_balances");
        rep.class_if(case.strategy_trades && !expected_calls.is_empty(), "strategy_sends_orders_on_the_tick_of_a_notice");
        rep.class_if(late_items > 0, "market_item_received_long_after_its_exchange_time");
        rep.class_if(case.events.iter().any(|e| e.kind == Kind::AccountItem && matches!(e.variant % 6, 3 | 4)), "account_item_is_a_timeout_report");
        rep.nontrivial = n_ex >= 2 && toggles >= 2;
        rep
    }
}

fn enumerate(n_ex: u8, max_len: usize) -> impl Iterator<Item = ConnCase> {
    let defs: Vec<InstrumentDef> = (0..n_ex)
        .map(|e| InstrumentDef { exchange: e, base: 0, quote: 2, kind: KindDef::Spot, unit: UnitDef::NoSpec })
        .collect();
    let kinds = [Kind::MarketItem, Kind::AccountItem, Kind::MarketReconnecting, Kind::AccountReconnecting];
    let mut alpha = Vec::new();
    for e in 0..n_ex {
        for k in kinds {
            alpha.push(ConnEv { kind: k, ex: e, variant: 0 });
        }
    }
    let n = alpha.len();
    (0..=max_len).flat_map(move |len| {
        let alpha = alpha.clone();
        let defs = defs.clone();
        (0..n.pow(len as u32)).map(move |mut idx| {
            let mut events = Vec::with_capacity(len);
            for _ in 0..len {
                events.push(alpha[idx % n]);
                idx /= n;
            }
            ConnCase { defs: defs.clone(), events, seed_balances: 0, strategy_trades: false }
        })
    })
}

pub fn run(ctx: &mut Ctx) {
    ctx.rule = "connectivity_model: 1..4 exchanges (each with >= 1 instrument), vec(event,0..40|80) over {market item (trade / L1), account item (balance / order report / fill / cancel response ok or timed out / open request timed out), market reconnecting, account reconnecting} x exchange, processed by Engine::process from the initial all-reconnecting state (checked per link before the first event; in a third of the cases the state is built with balances seeded through the builder; in 30% algorithmic trading is enabled and the strategy returns an order on every tick; a fifth of the market items are received 45..300 s after their exchange time). non-trivial = >= 2 exchanges and the global health flag changed at least twice; distinct by hash of the case. Exhaustive: every sequence over {4 kinds} x {2 exchanges} up to length 4 (quick) / {3 exchanges} up to length 4 and {2 exchanges} up to length 5 (thorough).".into();
    ctx.assumptions = vec!["every exchange of the collection has at least one instrument (it is how an exchange enters the index)".into()];
    ctx.run_regressions::<ConnectivityModel>();
    ctx.run::<ConnectivityModel>(ctx.tier.pick(120_000, 2_000_000));
    match ctx.tier {
        Tier::Quick => ctx.run_enumerated::<ConnectivityModel>("exhaustive_2ex_len4", enumerate(2, 4)),
        Tier::Thorough => {
            ctx.run_enumerated::<ConnectivityModel>("exhaustive_2ex_len5", enumerate(2, 5));
            ctx.run_enumerated::<ConnectivityModel>("exhaustive_3ex_len4", enumerate(3, 4));
        }
    }
}

pub fn replay(ctx: &mut Ctx, doc: &Value) -> bool {
    ctx.replay::<ConnectivityModel>(doc)
}
