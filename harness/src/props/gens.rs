//! Generators shared between properties.
use chrono::{DateTime, TimeZone, Utc};
use proptest::prelude::*;
use rust_decimal::Decimal;

/// Millisecond timestamp (after 1970, before 2100) -> DateTime<Utc>.
pub fn ts(ms: i64) -> DateTime<Utc> {
    Utc.timestamp_millis_opt(ms).single().expect("valid ms timestamp")
}

/// Base instant used by most generators: 2024-01-01T00:00:00Z.
pub const T0_MS: i64 = 1_704_067_200_000;

/// A decimal `mantissa * 10^-scale`.
pub fn dec(mantissa: i64, scale: u32) -> Decimal {
    Decimal::new(mantissa, scale)
}

/// Same numeric value, `extra` more digits of scale (1.0 -> 1.00): exercises representation
/// independence of comparisons.
pub fn rescaled(d: Decimal, extra: u32) -> Decimal {
    let mut d2 = d;
    let target = (d.scale() + extra).min(20);
    d2.rescale(target);
    d2
}

/// Positive decimal with up to `max_scale` decimal places and mantissa in `1..=max_mantissa`.
pub fn pos_decimal(max_mantissa: i64, max_scale: u32) -> impl Strategy<Value = Decimal> {
    (1..=max_mantissa, 0..=max_scale).prop_map(|(m, s)| Decimal::new(m, s))
}

pub fn abs_diff(a: Decimal, b: Decimal) -> Decimal {
    (a - b).abs()
}

/// |a-b| <= tol * (1 + scale)
pub fn close(a: Decimal, b: Decimal, tol: Decimal, scale: Decimal) -> bool {
    abs_diff(a, b) <= tol * (Decimal::ONE + scale.abs())
}
