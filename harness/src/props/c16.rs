//! C16 — Tear-sheet PnL, win rate and profit factor match the closed positions.
//!
//! Check `tear_sheet_direct`: generated sequences of closed positions are fed to
//! `TearSheetGenerator::update_from_position`; `generate` is compared with sums computed from the
//! positions themselves.
//! Check `trading_summary`: fills on 2-4 instruments (+ balance updates) go through
//! `Engine::process`; `Engine::trading_summary_generator(..).generate(..)` must report, per
//! instrument and asset, the tear sheet of exactly that entity's own history.

use crate::framework::{CaseReport, Check, Ctx, Tier};
use crate::props::enginekit::{EvSpec, Link, Resolver, Rig, strat};
use crate::props::gens::{ts, T0_MS};
use crate::props::world::{InstrumentDef, simple_world};
use barter::{
    EngineEvent,
    engine::{EngineOutput, Processor, audit::EngineAudit, state::{position::PositionExited, trading::TradingState}},
    execution::AccountStreamEvent,
    statistic::{
        summary::instrument::{TearSheet, TearSheetGenerator},
        time::Daily,
    },
};
use barter_execution::{AccountEventKind, balance::Balance, trade::{AssetFees, TradeId}};
use barter_instrument::{Side, asset::QuoteAsset, instrument::InstrumentIndex};
use proptest::prelude::*;
use rust_decimal::Decimal;
use serde::{Deserialize, Serialize};
use serde_json::Value;

#[derive(Debug, Clone, Copy, PartialEq, Eq, Serialize, Deserialize)]
pub struct Closed {
    /// realised PnL in units of 0.01
    pub pnl_c: i32,
    /// average entry price in units of 0.25
    pub entry_q: u16,
    /// max quantity in units of 0.1
    pub qmax_d: u8,
    pub dt: u16,
}

#[derive(Debug, Clone, Serialize, Deserialize)]
pub struct DirectCase {
    pub positions: Vec<Closed>,
    /// the generator is reset (a new session starts) before the position with this index
    #[serde(default)]
    pub reset_before: Option<u8>,
}

fn exited<K: Clone>(instrument: K, c: &Closed, t_ms: i64, n: usize) -> PositionExited<QuoteAsset, K> {
    PositionExited {
        instrument,
        side: Side::Buy,
        price_entry_average: Decimal::new(c.entry_q.max(1) as i64 * 25, 2),
        quantity_abs_max: Decimal::new(c.qmax_d.max(1) as i64, 1),
        pnl_realised: Decimal::new(c.pnl_c as i64, 2),
        fees_enter: AssetFees::quote_fees(Decimal::ZERO),
        fees_exit: AssetFees::quote_fees(Decimal::ZERO),
        time_enter: ts(t_ms - 1),
        time_exit: ts(t_ms),
        trades: vec![TradeId::new(format!("t{n}"))],
    }
}

/// Expected tear-sheet core from the closed positions alone (documented formulas).
#[derive(Debug, Clone, PartialEq)]
struct Expected {
    pnl: Decimal,
    win_rate: Option<Decimal>,
    profit_factor: Option<Decimal>,
    n: usize,
    wins: usize,
    losses: usize,
    breakeven: usize,
}

fn expected_of<K>(positions: &[PositionExited<QuoteAsset, K>]) -> Expected {
    let n = positions.len();
    let mut pnl = Decimal::ZERO;
    let (mut wins, mut losses, mut breakeven) = (0usize, 0usize, 0usize);
    let (mut gross_win, mut gross_loss) = (Decimal::ZERO, Decimal::ZERO);
    for p in positions {
        pnl += p.pnl_realised;
        // documented return: realised PnL over the position's maximum notional at entry
        let r = p.pnl_realised / (p.price_entry_average * p.quantity_abs_max);
        if r < Decimal::ZERO {
            losses += 1;
            gross_loss += r;
        } else {
            wins += 1;
            gross_win += r;
            if r.is_zero() {
                breakeven += 1;
            }
        }
    }
    let win_rate = (n > 0).then(|| Decimal::from(wins as u64) / Decimal::from(n as u64));
    let profit_factor = if gross_win.is_zero() && gross_loss.is_zero() {
        None
    } else if gross_loss.is_zero() {
        Some(Decimal::MAX)
    } else if gross_win.is_zero() {
        Some(Decimal::MIN)
    } else {
        Some(gross_win / gross_loss.abs())
    };
    Expected { pnl, win_rate, profit_factor, n, wins, losses, breakeven }
}

fn compare(tag: &str, sheet: &TearSheet<Daily>, e: &Expected) -> Result<(), (String, String)> {
    // Decimal::MAX / MIN are convention values: compared exactly (and 1 + MAX would overflow)
    let tol = |x: Decimal| if x == Decimal::MAX || x == Decimal::MIN { Decimal::ZERO } else { Decimal::new(1, 18) * (Decimal::ONE + x.abs()) };
    if sheet.pnl != e.pnl {
        return Err((format!("{tag}:pnl"), format!("tear sheet pnl {} != sum of realised PnL {} over {} closed positions", sheet.pnl, e.pnl, e.n)));
    }
    match (&sheet.win_rate, e.win_rate) {
        (None, None) => {}
        (Some(w), Some(x)) if (w.value - x).abs() <= tol(x) => {}
        (got, want) => {
            return Err((format!("{tag}:win-rate"), format!("win rate {:?} but {} of {} closed positions have a non-negative return (expected {want:?}; {} losses, {} break-even)", got.as_ref().map(|w| w.value), e.wins, e.n, e.losses, e.breakeven)))
        }
    }
    match (&sheet.profit_factor, e.profit_factor) {
        (None, None) => {}
        (Some(p), Some(x)) if (p.value - x).abs() <= tol(x) => {}
        (got, want) => return Err((format!("{tag}:profit-factor"), format!("profit factor {:?}, gross winning returns / gross losing returns = {want:?} ({} wins, {} losses)", got.as_ref().map(|p| p.value), e.wins, e.losses))),
    }
    Ok(())
}

fn classify(rep: &mut CaseReport, e: &Expected) {
    rep.class_if(e.n == 0, "empty");
    rep.class_if(e.n > 0 && e.losses == 0, "all_wins");
    rep.class_if(e.n > 0 && e.wins == 0, "all_losses");
    rep.class_if(e.breakeven > 0, "break_even_present");
    rep.class_if(e.wins > 0 && e.losses > 0, "wins_and_losses");
}

pub struct TearSheetDirect;

fn closed() -> impl Strategy<Value = Closed> {
    (
        prop_oneof![4 => 1i32..50_000, 4 => -50_000i32..0, 1 => Just(0i32)],
        1u16..4000,
        1u8..100,
        0u16..10_000,
    )
        .prop_map(|(pnl_c, entry_q, qmax_d, dt)| Closed { pnl_c, entry_q, qmax_d, dt })
}

impl Check for TearSheetDirect {
    type Case = DirectCase;
    const NAME: &'static str = "tear_sheet_direct";

    fn strategy(tier: Tier) -> BoxedStrategy<DirectCase> {
        let max = match tier {
            Tier::Quick => 25,
            Tier::Thorough => 60,
        };
        prop_oneof![
            8 => prop::collection::vec(closed(), 0..max),
            1 => prop::collection::vec(closed().prop_map(|mut c| { c.pnl_c = c.pnl_c.abs(); c }), 1..8),
            1 => prop::collection::vec(closed().prop_map(|mut c| { c.pnl_c = -c.pnl_c.abs() - 1; c }), 1..8),
        ]
        .prop_flat_map(|positions| (Just(positions), prop::option::weighted(0.25, 0u8..30)))
        .prop_map(|(positions, reset_before)| DirectCase { positions, reset_before })
        .boxed()
    }

    fn eval(case: &DirectCase) -> CaseReport {
        let mut rep = CaseReport::new();
        let mut generator = TearSheetGenerator::init(ts(T0_MS));
        let mut t = T0_MS;
        let mut fed: Vec<PositionExited<QuoteAsset, u8>> = Vec::new();
        // empty: documented conventions
        let sheet0 = generator.clone().generate(Decimal::ZERO, Daily);
        if let Err((sig, msg)) = compare("direct", &sheet0, &expected_of::<u8>(&[])) {
            rep.fail(sig, format!("before any position: {msg}"));
            return rep;
        }
        let reset_at = case.reset_before.map(|r| r as usize % case.positions.len().max(1));
        for (n, c) in case.positions.iter().enumerate() {
            t += 1 + c.dt as i64;
            if reset_at == Some(n) && n > 0 {
                // a new session: everything summarised so far is forgotten
                generator.reset(ts(t));
                fed.clear();
                let sheet = generator.clone().generate(Decimal::new(5, 2), Daily);
                if let Err((sig, msg)) = compare("direct", &sheet, &expected_of::<u8>(&[])) {
                    rep.fail(format!("{sig}-after-reset"), format!("straight after reset() following {n} closed positions {:?}: {msg}", &case.positions[..n]));
                    return rep;
                }
                rep.class("generator_reset_mid_history");
            }
            let p = exited(0u8, c, t, n);
            generator.update_from_position(&p);
            fed.push(p);
            // one generate() per generator clone
            let sheet = generator.clone().generate(Decimal::new(5, 2), Daily);
            if let Err((sig, msg)) = compare("direct", &sheet, &expected_of(&fed)) {
                rep.fail(sig, format!("after {} closed positions {:?}: {msg}", n + 1, &case.positions[..=n]));
                return rep;
            }
        }
        let e = expected_of(&fed);
        classify(&mut rep, &e);
        rep.nontrivial = e.n >= 3 && e.wins > 0 && e.losses > 0;
        rep
    }
}

// ---------------------------------------------------------------------------------------------

#[derive(Debug, Clone, Serialize, Deserialize)]
pub struct SummaryCase {
    pub defs: Vec<InstrumentDef>,
    pub events: Vec<EvSpec>,
}

pub struct TradingSummaryCheck;

/// Exchange time of a fill relative to the previous event: mostly later, sometimes earlier (the
/// venues' clocks are not synchronised, so positions of different instruments may close out of
/// time order).
fn fill_dt() -> impl Strategy<Value = i32> {
    prop_oneof![5 => 0i32..2000, 1 => -3000i32..0]
}

impl Check for TradingSummaryCheck {
    type Case = SummaryCase;
    const NAME: &'static str = "trading_summary";

    fn normalise(mut case: SummaryCase) -> SummaryCase {
        // full account snapshots are not part of this check's input domain
        case.events.retain(|e| !matches!(e, EvSpec::AccountSnapshot { .. }));
        case
    }

    fn strategy(tier: Tier) -> BoxedStrategy<SummaryCase> {
        let max = match tier {
            Tier::Quick => 40,
            Tier::Thorough => 90,
        };
        (
            simple_world(1..=3, 1..4),
            prop::collection::vec(
                prop_oneof![
                    8 => (0u8..4, any::<bool>(), 1u32..2000, prop_oneof![3 => Just(10u16), 1 => Just(20u16), 1 => Just(5u16)], prop_oneof![Just(0u16), 1u16..100], fill_dt())
                        .prop_map(|(inst, buy, price_q, qty, fee_bp, dt)| EvSpec::Fill { inst, buy, price_q, qty, fee_bp, dt }),
                    // two-price pool without fees: exact break-even closes
                    4 => (0u8..3, any::<bool>(), prop_oneof![Just(400u32), Just(404u32)], fill_dt())
                        .prop_map(|(inst, buy, price_q, dt)| EvSpec::Fill { inst, buy, price_q, qty: 10, fee_bp: 0, dt }),
                    2 => (0u8..12, 1u32..100_000, 0i32..2000).prop_map(|(asset, total, dt)| EvSpec::Balance { asset, total, dt }),
                    1 => strat::market_item(),
                ],
                0..max,
            ),
        )
            .prop_map(|(defs, events)| SummaryCase { defs, events })
            .boxed()
    }

    fn eval(case: &SummaryCase) -> CaseReport {
        let mut rep = CaseReport::new();
        macro_rules! bad {
            ($sig:expr, $($fmt:tt)+) => {{ rep.fail($sig, format!($($fmt)+)); return rep; }};
        }
        let mut rig = Rig::new(&case.defs, &[Link::Healthy; 4], TradingState::Disabled);
        let indexed = rig.indexed.clone();
        let mut resolver = Resolver::new(&indexed);
        let mut exits: Vec<Vec<PositionExited<QuoteAsset, InstrumentIndex>>> = vec![Vec::new(); indexed.instruments().len()];
        let mut last_balance: Vec<Option<Balance>> = vec![None; indexed.assets().len()];
        // a summary generator kept outside the engine and fed from the engine's outputs, the way a
        // consumer of the audit stream keeps one
        let mut follower = rig.engine.trading_summary_generator(Decimal::new(5, 2));
        let (mut last_exit_time, mut exits_out_of_time_order) = (None, 0u32);
        for spec in &case.events {
            let event = resolver.resolve(spec);
            if let EngineEvent::Account(AccountStreamEvent::Item(a)) = &event {
                if let AccountEventKind::BalanceSnapshot(b) = &a.kind {
                    last_balance[b.0.asset.index()] = Some(b.0.balance);
                    follower.update_from_balance(barter_integration::snapshot::Snapshot(&b.0));
                }
            }
            let audit = rig.engine.process(event);
            if let EngineAudit::Process(p) = &audit {
                for o in p.outputs.iter() {
                    if let EngineOutput::PositionExit(e) = o {
                        exits[e.instrument.index()].push(e.clone());
                        follower.update_from_position(e);
                        if last_exit_time.is_some_and(|t| e.time_exit < t) {
                            exits_out_of_time_order += 1;
                        }
                        last_exit_time = Some(last_exit_time.map_or(e.time_exit, |t: chrono::DateTime<chrono::Utc>| t.max(e.time_exit)));
                    }
                }
            }
        }
        let mut generator = rig.engine.trading_summary_generator(Decimal::new(5, 2));
        let summary = generator.generate(Daily);

        // one entry per instrument / asset, keyed by that entity (the order of the listing is not
        // part of the statement: compared as sets)
        let mut keys: Vec<_> = summary.instruments.keys().cloned().collect();
        let mut want: Vec<_> = indexed.instruments().iter().map(|i| i.value.name_internal.clone()).collect();
        keys.sort();
        want.sort();
        if keys != want {
            bad!("summary:instrument-keys", "summary lists instruments {keys:?}, the engine trades {want:?}");
        }
        let mut akeys: Vec<_> = summary.assets.keys().map(|k| (k.exchange, k.asset.clone())).collect();
        let mut awant: Vec<_> = indexed.assets().iter().map(|a| (a.value.exchange, a.value.asset.name_internal.clone())).collect();
        akeys.sort();
        awant.sort();
        if akeys != awant {
            bad!("summary:asset-keys", "summary lists assets {akeys:?}, expected {awant:?}");
        }
        let mut with_history = 0;
        let mut agg = Expected { pnl: Decimal::ZERO, win_rate: None, profit_factor: None, n: 0, wins: 0, losses: 0, breakeven: 0 };
        for (i, ins) in indexed.instruments().iter().enumerate() {
            let e = expected_of(&exits[i]);
            if e.n > 0 {
                with_history += 1;
            }
            agg.n += e.n;
            agg.wins += e.wins;
            agg.losses += e.losses;
            agg.breakeven += e.breakeven;
            let sheet = &summary.instruments[&ins.value.name_internal];
            if let Err((sig, msg)) = compare("summary", sheet, &e) {
                bad!(sig, "instrument {i} ({}): {msg}", ins.value.name_internal);
            }
        }
        let followed = follower.generate(Daily);
        if followed.instruments.len() != summary.instruments.len() || followed.assets.len() != summary.assets.len() || followed.instruments.keys().any(|k| !summary.instruments.contains_key(k)) || followed.assets.keys().any(|k| !summary.assets.contains_key(k)) {
            bad!("follower:keys", "summary generator fed from the outputs lists {:?} / {:?}", followed.instruments.keys().collect::<Vec<_>>(), followed.assets.keys().collect::<Vec<_>>());
        }
        for (i, ins) in indexed.instruments().iter().enumerate() {
            if let Err((sig, msg)) = compare("follower", &followed.instruments[&ins.value.name_internal], &expected_of(&exits[i])) {
                bad!(sig, "summary generator fed with the engine's position exits, instrument {i} ({}): {msg} ({} exits of the run were out of time order)", ins.value.name_internal, exits_out_of_time_order);
            }
        }
        for (i, a) in indexed.assets().iter().enumerate() {
            let key = barter_instrument::asset::ExchangeAsset { exchange: a.value.exchange, asset: a.value.asset.name_internal.clone() };
            let sheet = &summary.assets[&key];
            if sheet.balance_end != last_balance[i] {
                bad!("summary:asset-balance", "asset {i} ({:?}): balance_end {:?}, its own last balance is {:?}", key, sheet.balance_end, last_balance[i]);
            }
        }
        classify(&mut rep, &agg);
        for (i, a) in indexed.assets().iter().enumerate() {
            let key = barter_instrument::asset::ExchangeAsset { exchange: a.value.exchange, asset: a.value.asset.name_internal.clone() };
            if last_balance[i].is_some() && followed.assets[&key].balance_end != last_balance[i] {
                bad!("follower:asset-balance", "summary generator fed with the balance snapshots, asset {i} ({:?}): balance_end {:?}, its own last balance is {:?}", key, followed.assets[&key].balance_end, last_balance[i]);
            }
        }
        rep.class_if(with_history >= 2, "two_or_more_instruments_with_history");
        rep.class_if(exits_out_of_time_order > 0, "position_exits_out_of_time_order");
        rep.nontrivial = agg.n >= 3 && agg.wins > 0 && agg.losses > 0 && with_history >= 2;
        rep
    }
}

pub fn run(ctx: &mut Ctx) {
    ctx.rule = "tear_sheet_direct: 0..25|60 closed positions (wins, losses, break-even; entry 0.25..1000, max quantity 0.1..9.9), generate() checked after every position; in a quarter of the cases reset() is called mid-history (the sheet then describes the positions since); plus all-win and all-loss sequences. trading_summary: 1..3 exchanges / 2..6 instruments, vec(event,0..40|90) of fills (sizes 0.5/1/2 so closes and flips are frequent, fees incl. zero), balance updates and market data through Engine::process, then Engine::trading_summary_generator(0.05).generate(Daily); a second TradingSummaryGenerator taken before the run and fed with every PositionExit output / balance snapshot (update_from_position / update_from_balance) must report the same; one fill in six carries an earlier exchange time than the previous event. non-trivial = >= 3 closed positions with >= 1 win and >= 1 loss (summary check: on >= 2 instruments); distinct by hash of the case.".into();
    ctx.assumptions = vec![
        "return of a closed position = realised PnL / (average entry x maximum quantity) as documented; a return of exactly zero counts as not negative".into(),
        "one generate() per generator clone; balance timestamps in the summary check are increasing".into(),
    ];
    ctx.run_regressions::<TearSheetDirect>();
    ctx.run_regressions::<TradingSummaryCheck>();
    ctx.run::<TearSheetDirect>(ctx.tier.pick(80_000, 1_200_000));
    ctx.run::<TradingSummaryCheck>(ctx.tier.pick(30_000, 400_000));
}

pub fn replay(ctx: &mut Ctx, doc: &Value) -> bool {
    ctx.replay::<TearSheetDirect>(doc) || ctx.replay::<TradingSummaryCheck>(doc)
}
