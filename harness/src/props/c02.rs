//! C02 — Position size and realised PnL conserve the cash flows of the fills.
//!
//! Check `position_ledger`: generated fill sequences are applied to `PositionManager` and, in
//! parallel, to `EngineState::update_from_account(AccountEventKind::Trade)` (instrument 1 of a
//! 2-exchange world); after every fill the position is compared with an independent ledger
//! (net signed quantity, cash flows, fee totals, fill ids) that uses none of the repo's formulas.

use crate::ensure;
use crate::framework::{CaseReport, Check, Ctx, Tier};
use crate::props::gens::{ts, T0_MS};
use crate::props::world::{self, InstrumentDef, KindDef, UnitDef};
use barter::engine::state::{
    position::{PositionExited, PositionManager},
    trading::TradingState,
};
use barter_execution::{
    AccountEvent, AccountEventKind,
    order::id::{OrderId, StrategyId},
    trade::{AssetFees, Trade, TradeId},
};
use barter_instrument::{Side, asset::QuoteAsset, exchange::ExchangeIndex, instrument::InstrumentIndex};
use proptest::prelude::*;
use rust_decimal::Decimal;
use serde::{Deserialize, Serialize};
use serde_json::Value;

#[derive(Debug, Clone, Copy, PartialEq, Eq, Serialize, Deserialize)]
pub enum Magnitude {
    Tiny,
    Mid,
    Huge,
}

#[derive(Debug, Clone, Copy, PartialEq, Eq, Serialize, Deserialize)]
pub enum QtySel {
    /// exactly the open quantity (exact close when the side opposes)
    Current,
    /// half the open quantity
    Half,
    /// twice the open quantity (flip when the side opposes)
    Double,
    /// open quantity plus one small unit
    CurrentPlus,
    /// from a small pool of round quantities
    Pool(u8),
    /// fresh mantissa/scale
    Fresh(u32, u8),
}

#[derive(Debug, Clone, Copy, PartialEq, Eq, Serialize, Deserialize)]
pub struct FillSpec {
    pub buy: bool,
    /// price mantissa 1..=99999 and scale 0..=4, shifted by the case's magnitude class
    pub price_m: u32,
    pub price_s: u8,
    pub qty: QtySel,
    /// fee rate in 1e-5 units of the fill's value (0 = no fee)
    pub fee_rate: u16,
    pub dt: u16,
    /// > 0: the fill is reported with an exchange time this many ms BEFORE the running time (fills
    /// of two orders reported out of time order, a delayed report)
    #[serde(default)]
    pub stale_ms: u16,
}

#[derive(Debug, Clone, Serialize, Deserialize)]
pub struct PositionCase {
    pub magnitude: Magnitude,
    pub fills: Vec<FillSpec>,
    /// > 0: the history starts with this many fills on the first fill's side (an inventory built up
    /// by many partial fills before anything reduces it; up to 250)
    #[serde(default)]
    pub build_up: u8,
}

#[derive(Debug, Clone)]
pub struct Fill {
    pub id: String,
    pub buy: bool,
    pub price: Decimal,
    pub qty: Decimal,
    pub fee: Decimal,
    pub t_ms: i64,
}

fn price_of(m: Magnitude, f: &FillSpec) -> Decimal {
    let base = Decimal::new(f.price_m.max(1) as i64, (f.price_s % 5) as u32);
    match m {
        Magnitude::Tiny => base * Decimal::new(1, 7),   // ~1e-7 .. 1e-2
        Magnitude::Mid => base,                         // 1e-4 .. 1e5
        Magnitude::Huge => base * Decimal::from(10_000), // 1 .. 1e9
    }
}

fn qty_unit(m: Magnitude) -> Decimal {
    match m {
        Magnitude::Tiny => Decimal::new(1, 6),
        Magnitude::Mid => Decimal::new(1, 2),
        Magnitude::Huge => Decimal::from(1000),
    }
}

fn qty_of(m: Magnitude, sel: QtySel, open_abs: Decimal) -> Decimal {
    let unit = qty_unit(m);
    let pool = [1i64, 2, 5, 10, 25, 100];
    let q = match sel {
        QtySel::Current if !open_abs.is_zero() => open_abs,
        QtySel::Half if !open_abs.is_zero() => open_abs / Decimal::TWO,
        QtySel::Double if !open_abs.is_zero() => open_abs * Decimal::TWO,
        QtySel::CurrentPlus if !open_abs.is_zero() => open_abs + unit,
        QtySel::Pool(i) => unit * Decimal::from(pool[i as usize % pool.len()]),
        QtySel::Fresh(mant, s) => unit * Decimal::new(mant.max(1) as i64, (s % 4) as u32),
        _ => unit * Decimal::from(10),
    };
    // keep quantities representable without growth of scale over many halvings
    // bounded so that no sequence of doublings can overflow Decimal's 96-bit mantissa
    q.round_dp(12).max(Decimal::new(1, 12)).min(unit * Decimal::from(1_000_000))
}

/// Resolve the selectors against the running net quantity (pure function of the case).
pub fn resolve(case: &PositionCase) -> Vec<Fill> {
    let mut net = Decimal::ZERO;
    let mut t = T0_MS;
    let mut out = Vec::new();
    let side = case.fills.first().map(|f| f.buy).unwrap_or(true);
    let prefix = (0..case.build_up as u32).map(|k| FillSpec { buy: side, price_m: 5000 + 37 * (k % 50), price_s: 2, qty: QtySel::Pool((k % 6) as u8), fee_rate: (k % 3) as u16 * 10, dt: (k % 7) as u16, stale_ms: 0 });
    let specs: Vec<FillSpec> = prefix.chain(case.fills.iter().copied()).collect();
    for (i, f) in specs.iter().enumerate() {
        let price = price_of(case.magnitude, f);
        let qty = qty_of(case.magnitude, f.qty, net.abs());
        let fee = (price * qty * Decimal::new(f.fee_rate as i64, 5)).round_dp(10);
        t += 1 + f.dt as i64;
        net += if f.buy { qty } else { -qty };
        out.push(Fill { id: format!("t{i}"), buy: f.buy, price, qty, fee, t_ms: if i > 0 { t - f.stale_ms as i64 } else { t } });
    }
    out
}

fn trade_of<K: Clone>(instrument: K, f: &Fill) -> Trade<QuoteAsset, K> {
    Trade {
        id: TradeId::new(&f.id),
        order_id: OrderId::new(format!("o-{}", f.id)),
        instrument,
        strategy: StrategyId::new("strat"),
        time_exchange: ts(f.t_ms),
        side: if f.buy { Side::Buy } else { Side::Sell },
        price: f.price,
        quantity: f.qty,
        fees: AssetFees::quote_fees(f.fee),
    }
}

/// Independent ledger.
#[derive(Debug, Default)]
struct Ledger {
    net: Decimal,
    buys_value: Decimal,
    sells_value: Decimal,
    fees: Decimal,
    turnover: Decimal,
    // per open position
    open_ids: Vec<String>,
    open_time_enter: i64,
    /// latest exchange time among the fills of the open position
    open_time_latest: i64,
    open_qmax: Decimal,
    open_inc_price_min: Option<Decimal>,
    open_inc_price_max: Option<Decimal>,
    // over closed positions
    closed_realised: Decimal,
    closed_fees: Decimal,
    exits: u32,
}

#[derive(Default)]
struct Shape {
    increase_after_reduction: bool,
    flips: u32,
    exact_closes: u32,
    reduced_since_open: bool,
}

fn tol(l: &Ledger) -> Decimal {
    Decimal::new(1, 22) * (Decimal::ONE + l.turnover)
}

fn check_step<K: std::fmt::Debug + Clone + PartialEq>(
    layer: &str,
    rep: &mut CaseReport,
    l: &mut Ledger,
    shape: &mut Shape,
    f: &Fill,
    n: usize,
    exited: &Option<PositionExited<QuoteAsset, K>>,
    current: &Option<barter::engine::state::position::Position<QuoteAsset, K>>,
) -> bool {
    macro_rules! bad {
        ($sig:expr, $($fmt:tt)+) => {{
            rep.fail(format!("{layer}:{}", $sig), format!("fill {n} {f:?}: {}", format!($($fmt)+)));
            return false;
        }};
    }
    let prev = l.net;
    let signed = if f.buy { f.qty } else { -f.qty };
    let new = prev + signed;
    let value = f.price * f.qty;
    if f.buy {
        l.buys_value += value;
    } else {
        l.sells_value += value;
    }
    l.fees += f.fee;
    l.turnover += value + f.fee;
    l.net = new;

    let opposes = !prev.is_zero() && (prev.is_sign_positive() != f.buy);
    let closes = opposes && (new.is_zero() || (new.is_sign_positive() != prev.is_sign_positive()));
    let flips = closes && !new.is_zero();

    // (2) a position-closed record is emitted exactly when net quantity reaches or crosses zero
    match (closes, exited) {
        (true, None) => bad!("missing-position-exit", "net quantity {prev} -> {new} reached/crossed zero but no PositionExited was returned"),
        (false, Some(e)) => bad!("spurious-position-exit", "net quantity {prev} -> {new} did not reach zero but PositionExited {e:?} was returned"),
        _ => {}
    }

    // ids affected
    if prev.is_zero() {
        l.open_ids = vec![f.id.clone()];
        l.open_time_enter = f.t_ms;
        l.open_time_latest = f.t_ms;
        l.open_qmax = f.qty;
        l.open_inc_price_min = Some(f.price);
        l.open_inc_price_max = Some(f.price);
        shape.reduced_since_open = false;
    } else if !opposes {
        l.open_ids.push(f.id.clone());
        if new.abs() > l.open_qmax {
            l.open_qmax = new.abs();
        }
        l.open_inc_price_min = Some(l.open_inc_price_min.unwrap().min(f.price));
        l.open_inc_price_max = Some(l.open_inc_price_max.unwrap().max(f.price));
        if shape.reduced_since_open {
            shape.increase_after_reduction = true;
        }
    } else {
        l.open_ids.push(f.id.clone());
        shape.reduced_since_open = true;
    }

    if !prev.is_zero() {
        l.open_time_latest = l.open_time_latest.max(f.t_ms);
    }
    if let Some(e) = exited {
        l.exits += 1;
        let exp_side = if prev.is_sign_positive() { Side::Buy } else { Side::Sell };
        if e.side != exp_side {
            bad!("exit-side", "exited side {:?}, net before was {prev}", e.side);
        }
        let ids: Vec<String> = e.trades.iter().map(|t| t.0.to_string()).collect();
        if ids != l.open_ids {
            bad!("exit-trade-ids", "exited position records fills {ids:?}, the fills that affected it are {:?}", l.open_ids);
        }
        // (a fill reported out of time order: its own time or the latest time seen are both
        // reasonable "time of exit"; in-order fills make the two coincide)
        if e.time_enter != ts(l.open_time_enter) || (e.time_exit != ts(f.t_ms) && e.time_exit != ts(l.open_time_latest)) {
            bad!("exit-times", "exited time_enter/time_exit {:?}/{:?}, expected {:?}/{:?}", e.time_enter, e.time_exit, ts(l.open_time_enter), ts(f.t_ms));
        }
        if e.quantity_abs_max != l.open_qmax {
            bad!("exit-quantity-max", "exited quantity_abs_max {} != running maximum {}", e.quantity_abs_max, l.open_qmax);
        }
        l.closed_realised += e.pnl_realised;
        l.closed_fees += e.fees_enter.fees + e.fees_exit.fees;
        if flips {
            shape.flips += 1;
            l.open_ids = vec![f.id.clone()];
            l.open_time_enter = f.t_ms;
            l.open_time_latest = f.t_ms;
            l.open_qmax = new.abs();
            l.open_inc_price_min = Some(f.price);
            l.open_inc_price_max = Some(f.price);
            shape.reduced_since_open = false;
        } else {
            shape.exact_closes += 1;
            l.open_ids.clear();
        }
    }

    // (1) side and size equal sign and magnitude of the net signed quantity
    match current {
        None => {
            if !new.is_zero() {
                bad!("position-missing", "net quantity is {new} but no position is open");
            }
        }
        Some(p) => {
            if new.is_zero() {
                bad!("position-should-be-flat", "net quantity is 0 but position {p:?} is open");
            }
            let exp_side = if new.is_sign_positive() { Side::Buy } else { Side::Sell };
            if p.side != exp_side || p.quantity_abs != new.abs() {
                bad!("position-size", "position {:?} {} but net signed quantity is {new}", p.side, p.quantity_abs);
            }
            if p.quantity_abs_max != l.open_qmax {
                bad!("quantity-max", "quantity_abs_max {} != running maximum {} since the position opened", p.quantity_abs_max, l.open_qmax);
            }
            let ids: Vec<String> = p.trades.iter().map(|t| t.0.to_string()).collect();
            if ids != l.open_ids {
                bad!("trade-ids", "position records fills {ids:?}, the fills that affected it are {:?}", l.open_ids);
            }
            if p.time_enter != ts(l.open_time_enter) || (p.time_exchange_update != ts(f.t_ms) && p.time_exchange_update != ts(l.open_time_latest)) {
                bad!("times", "time_enter/update {:?}/{:?}, expected {:?}/{:?}", p.time_enter, p.time_exchange_update, ts(l.open_time_enter), ts(f.t_ms));
            }
            if flips {
                // crossing fill opens the opposite position with the remainder at the fill price
                // and a pro-rata share of the fee
                let exp_fee = f.fee * new.abs() / f.qty;
                if p.price_entry_average != f.price {
                    bad!("flip-entry-price", "position opened by a crossing fill has entry {} != fill price {}", p.price_entry_average, f.price);
                }
                if (p.fees_enter.fees - exp_fee).abs() > tol(l) || !p.fees_exit.fees.is_zero() {
                    bad!("flip-fee-share", "position opened by a crossing fill has entry fee {} (exit {}), pro-rata share is {}", p.fees_enter.fees, p.fees_exit.fees, exp_fee);
                }
            }
            let (lo, hi) = (l.open_inc_price_min.unwrap(), l.open_inc_price_max.unwrap());
            let slack = tol(l);
            if p.price_entry_average < lo - slack || p.price_entry_average > hi + slack {
                bad!("entry-average-out-of-range", "average entry {} outside the range [{lo}, {hi}] of the fills that built the position", p.price_entry_average);
            }
        }
    }

    // conservation of cash flows
    let (open_realised, open_fees, open_value) = match current {
        Some(p) => (p.pnl_realised, p.fees_enter.fees + p.fees_exit.fees, new * p.price_entry_average),
        None => (Decimal::ZERO, Decimal::ZERO, Decimal::ZERO),
    };
    let lhs = l.closed_realised + open_realised;
    let rhs = l.sells_value - l.buys_value - l.fees + open_value;
    if (lhs - rhs).abs() > tol(l) {
        bad!("pnl-conservation", "sum of realised PnL {lhs} != sells {} - buys {} - fees {} + open value {open_value} = {rhs} (diff {})", l.sells_value, l.buys_value, l.fees, lhs - rhs);
    }
    let fee_total = l.closed_fees + open_fees;
    if (fee_total - l.fees).abs() > tol(l) {
        bad!("fee-conservation", "entry+exit fees over all positions {fee_total} != fees of the fills {}", l.fees);
    }
    true
}

pub struct PositionLedger;

fn fill_spec() -> impl Strategy<Value = FillSpec> {
    (
        any::<bool>(),
        1u32..100_000,
        0u8..5,
        prop_oneof![
            3 => Just(QtySel::Current),
            2 => Just(QtySel::Half),
            2 => Just(QtySel::Double),
            1 => Just(QtySel::CurrentPlus),
            3 => (0u8..6).prop_map(QtySel::Pool),
            2 => (1u32..10_000, 0u8..4).prop_map(|(m, s)| QtySel::Fresh(m, s)),
        ],
        prop_oneof![3 => Just(0u16), 7 => 1u16..2000],
        0u16..5000,
        prop_oneof![6 => Just(0u16), 1 => 1u16..20_000],
    )
        .prop_map(|(buy, price_m, price_s, qty, fee_rate, dt, stale_ms)| FillSpec { buy, price_m, price_s, qty, fee_rate, dt, stale_ms })
}

impl Check for PositionLedger {
    type Case = PositionCase;
    const NAME: &'static str = "position_ledger";

    fn normalise(mut case: PositionCase) -> PositionCase {
        for f in &mut case.fills {
            f.price_m = 1 + f.price_m % 99_999;
            f.fee_rate %= 2000;
            f.dt %= 5000;
            if let QtySel::Fresh(m, s) = f.qty {
                f.qty = QtySel::Fresh(1 + m % 9_999, s % 4);
            }
        }
        case.build_up = if case.build_up & 7 == 7 { 100 + case.build_up / 2 } else { 0 };
        if case.fills.is_empty() {
            case.fills.push(FillSpec { buy: true, price_m: 100, price_s: 0, qty: QtySel::Pool(0), fee_rate: 0, dt: 0, stale_ms: 0 });
        }
        case
    }


    fn strategy(tier: Tier) -> BoxedStrategy<PositionCase> {
        let max = match tier {
            Tier::Quick => 30,
            Tier::Thorough => 60,
        };
        (
            prop_oneof![1 => Just(Magnitude::Tiny), 3 => Just(Magnitude::Mid), 1 => Just(Magnitude::Huge)],
            prop::collection::vec(fill_spec(), 1..max),
            prop_oneof![24 => Just(0u8), 1 => 100u8..=250],
        )
            .prop_map(|(magnitude, fills, build_up)| PositionCase { magnitude, fills, build_up })
            .boxed()
    }

    fn eval(case: &PositionCase) -> CaseReport {
        let mut rep = CaseReport::new();
        let fills = resolve(case);

        // layer 1: PositionManager
        let mut pm: PositionManager<u8> = PositionManager::default();
        let mut l = Ledger::default();
        let mut shape = Shape::default();
        let mut exits_direct: Vec<PositionExited<QuoteAsset, u8>> = Vec::new();
        for (n, f) in fills.iter().enumerate() {
            let exited = pm.update_from_trade(&trade_of(7u8, f));
            if !check_step("position", &mut rep, &mut l, &mut shape, f, n, &exited, &pm.current) {
                return rep;
            }
            exits_direct.extend(exited);
        }

        // layer 2: EngineState::update_from_account on a 2-exchange world; instrument 1 trades
        let defs = vec![
            InstrumentDef { exchange: 1, base: 0, quote: 2, kind: KindDef::Spot, unit: UnitDef::NoSpec },
            // the traded instrument is a spot pair or a perpetual with contract size 0.01 / 10: fills,
            // orders and positions are all in contracts, so the ledger is the same
            InstrumentDef { exchange: 1, base: 1, quote: 2, kind: match case.fills[0].dt % 3 { 0 => KindDef::Spot, 1 => KindDef::Perpetual { settle: 1 }, _ => KindDef::Perpetual { settle: 2 } }, unit: UnitDef::NoSpec },
            InstrumentDef { exchange: 2, base: 0, quote: 3, kind: KindDef::Spot, unit: UnitDef::NoSpec },
        ];
        // the other exchange lists the traded instrument too, under the same exchange-side symbol
        let mut defs = defs;
        defs.push(InstrumentDef { exchange: 2, ..defs[1].clone() });
        let indexed = world::index(&defs);
        let mut state = world::engine_state(&indexed, TradingState::Disabled);
        let pristine = state.clone();
        rep.class_if(case.fills[0].dt % 3 != 0, "engine_layer_instrument_is_a_perpetual_with_contract_size_not_1");
        let inst = InstrumentIndex(1);
        let exchange: ExchangeIndex = indexed.instruments()[1].value.exchange.key;
        let mut l2 = Ledger::default();
        let mut shape2 = Shape::default();
        let mut n_exits = 0usize;
        // in half of the cases the fills arrive the way an execution link delivers them: named by the
        // exchange's own symbol and translated by that exchange's AccountEventIndexer
        let via_indexer = case.fills.len() % 2 == 0;
        rep.class_if(via_indexer, "engine_layer_fills_translated_by_the_exchange_indexer");
        let exchange_id = indexed.exchanges()[exchange.index()].value;
        let symbol = indexed.instruments()[1].value.name_exchange.clone();
        let indexer = match barter_execution::map::generate_execution_instrument_map(&indexed, exchange_id) {
            Ok(map) => barter_execution::indexer::AccountEventIndexer::new(std::sync::Arc::new(map)),
            Err(e) => {
                rep.fail("engine-state:instrument-map", format!("no instrument map for {exchange_id}: {e}"));
                return rep;
            }
        };
        for (n, f) in fills.iter().enumerate() {
            let ev = if via_indexer {
                match indexer.account_event(AccountEvent { exchange: exchange_id, kind: AccountEventKind::Trade(trade_of(symbol.clone(), f)) }) {
                    Ok(ev) => ev,
                    Err(e) => {
                        rep.fail("engine-state:fill-not-translated", format!("fill {n} for {symbol} on {exchange_id} is refused by that exchange's indexer: {e}"));
                        return rep;
                    }
                }
            } else {
                AccountEvent { exchange, kind: AccountEventKind::Trade(trade_of(inst, f)) }
            };
            let exited = state.update_from_account(&ev);
            let cur = state.instruments.instrument_index(&inst).position.current.clone();
            if !check_step("engine-state", &mut rep, &mut l2, &mut shape2, f, n, &exited, &cur) {
                return rep;
            }
            if let Some(e) = &exited {
                ensure!(rep, e.instrument == inst, "engine-state:exit-instrument", "PositionExited names {:?}, fills were for {:?}", e.instrument, inst);
                n_exits += 1;
            }
        }
        // other instruments untouched by the fills
        for i in [0usize, 2, 3] {
            let a = state.instruments.instrument_index(&InstrumentIndex(i));
            let b = pristine.instruments.instrument_index(&InstrumentIndex(i));
            ensure!(rep, a == b, "engine-state:other-instrument-changed", "fills for instrument 1 changed instrument {i}");
        }
        ensure!(rep, state.assets == pristine.assets, "engine-state:assets-changed", "fills changed asset states");
        ensure!(rep, n_exits == exits_direct.len(), "engine-state:exit-count", "engine layer produced {n_exits} exits, position manager {}", exits_direct.len());

        // layer 3: Engine::process with trading enabled and a strategy that places an order on
        // every tick: the closed-position records must still appear in the audit of the fills
        {
            use crate::props::enginekit::{Link, Rig, STRATEGY};
            use barter::{
                EngineEvent,
                engine::{EngineOutput, Processor, audit::EngineAudit},
                execution::AccountStreamEvent,
            };
            use barter_execution::order::{
                OrderKey, OrderKind, TimeInForce,
                id::{ClientOrderId, StrategyId},
                request::{OrderRequestOpen, RequestOpen},
            };
            let mut rig = Rig::new(&defs, &[Link::Healthy; 4], TradingState::Enabled);
            let mut audited: Vec<PositionExited<QuoteAsset, InstrumentIndex>> = Vec::new();
            for (n, f) in fills.iter().enumerate() {
                // the strategy reacts to this tick with one order (alternating instruments)
                let target = InstrumentIndex(n % 3);
                let request = OrderRequestOpen {
                    key: OrderKey { exchange: indexed.instruments()[target.index()].value.exchange.key, instrument: target, strategy: StrategyId::new(STRATEGY), cid: ClientOrderId::new(format!("tick-{n}")) },
                    state: RequestOpen { side: Side::Buy, price: Decimal::ONE, quantity: Decimal::ONE, kind: OrderKind::Limit, time_in_force: TimeInForce::GoodUntilCancelled { post_only: false } },
                };
                rig.engine.strategy.push_script(vec![], vec![request]);
                let ev = EngineEvent::Account(AccountStreamEvent::Item(AccountEvent { exchange, kind: AccountEventKind::Trade(trade_of(inst, f)) }));
                match rig.engine.process(ev) {
                    EngineAudit::Process(p) => {
                        for o in p.outputs.iter() {
                            if let EngineOutput::PositionExit(e) = o {
                                audited.push(e.clone());
                            }
                        }
                    }
                    EngineAudit::FeedEnded => {}
                }
            }
            let as_tuple = |instrument_ok: bool, e_pnl: Decimal, trades: Vec<String>| (instrument_ok, e_pnl, trades);
            let got: Vec<_> = audited.iter().map(|e| as_tuple(e.instrument == inst, e.pnl_realised, e.trades.iter().map(|t| t.0.to_string()).collect())).collect();
            let want: Vec<_> = exits_direct.iter().map(|e| as_tuple(true, e.pnl_realised, e.trades.iter().map(|t| t.0.to_string()).collect())).collect();
            ensure!(rep, got == want, "engine-audit:position-exits", "with a strategy that places an order on every tick the audits of the fills carry the closed-position records {got:?}, the fills close {want:?}");
        }

        rep.class(match case.magnitude {
            Magnitude::Tiny => "magnitude_tiny",
            Magnitude::Mid => "magnitude_mid",
            Magnitude::Huge => "magnitude_huge",
        });
        rep.class_if(shape.increase_after_reduction, "increase_after_reduction");
        rep.class_if(case.build_up > 128, "position_built_by_more_than_128_fills");
        rep.class_if(shape.flips > 0, "flip");
        rep.class_if(shape.flips > 1, "repeated_flips");
        rep.class_if(shape.exact_closes > 0, "exact_close");
        rep.class_if(fills.iter().any(|f| f.fee.is_zero()), "zero_fee_fill");
        rep.class_if(fills.windows(2).any(|w| w[1].t_ms < w[0].t_ms), "fill_reported_out_of_time_order");
        rep.nontrivial = fills.len() >= 3 && (shape.increase_after_reduction || shape.flips > 0 || shape.exact_closes > 0);
        rep
    }
}

pub fn run(ctx: &mut Ctx) {
    ctx.rule = "position_ledger: 1..30|60 fills on one instrument; one magnitude class per case (tiny ~1e-7..1e-2, mid 1e-4..1e5, huge 1..1e9 prices with matching quantity units); quantity selectors biased towards exact closes, halvings, flips (current, half, double, current+unit, pool, fresh); fee = value x rate (30% zero); one fill in seven carries an exchange time earlier than fills already applied. Applied to PositionManager::update_from_trade, to EngineState::update_from_account(Trade) (2 exchanges that both list the traded symbol; in half of the cases the fills are named by the exchange's symbol and translated by its AccountEventIndexer) and to Engine::process with trading enabled and a strategy that places an order on every tick (closed-position records read from the audit). non-trivial = >=3 fills AND at least one of {increase after a reduction, flip, exact close}; distinct by hash of the case.".into();
    ctx.assumptions = vec![
        "price > 0, quantity > 0, fee >= 0, unique trade ids, |price x quantity| <= 1e18 so Decimal arithmetic cannot overflow".into(),
        "decimal rounding tolerance 1e-22 x (1 + gross turnover) on the conservation laws (Decimal carries 28 significant digits; a wrong term is at least a fee or a price tick times a quantity)".into(),
    ];
    ctx.run_regressions::<PositionLedger>();
    ctx.run::<PositionLedger>(ctx.tier.pick(150_000, 2_500_000));
}

pub fn replay(ctx: &mut Ctx, doc: &Value) -> bool {
    ctx.replay::<PositionLedger>(doc)
}
