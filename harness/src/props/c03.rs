//! C03 — Order requests: sent => delivered once and in flight; refused/failed => neither.
//!
//! Check `request_delivery`: generated engine event histories are processed by `Engine::process`
//! with a scripted strategy (generated cancels/opens per call, some addressed to an unknown
//! exchange index), a scripted risk manager (refuses marked requests) and execution links that are
//! Healthy / Closed / Missing per exchange. After every event three observations are reconciled:
//! the audit (sent / errors / refused), what each link's receiver actually got, and the order
//! tables before/after.

use crate::framework::{CaseReport, Check, Ctx, Tier};
use crate::props::enginekit::{EvSpec, Link, ReqSpec, Resolver, Rig, is_refused, strat};
use crate::props::world::{InstrumentDef, simple_world};
use barter::{
    EngineEvent,
    engine::{
        EngineOutput, Processor,
        action::{ActionOutput, generate_algo_orders::GenerateAlgoOrdersOutput},
        audit::EngineAudit,
        command::Command,
        state::trading::TradingState,
    },
    execution::request::ExecutionRequest,
};
use barter_execution::order::{
    id::ClientOrderId,
    request::{OrderRequestCancel, OrderRequestOpen},
    state::ActiveOrderState,
};
use barter_instrument::{exchange::ExchangeIndex, instrument::InstrumentIndex};
use barter_integration::Terminal;
use proptest::prelude::*;
use serde::{Deserialize, Serialize};
use serde_json::Value;

#[derive(Debug, Clone, PartialEq, Eq, Serialize, Deserialize)]
pub struct Step {
    pub event: EvSpec,
    /// what the strategy returns if it is asked for orders while this event is processed
    pub algo_cancels: Vec<ReqSpec>,
    pub algo_opens: Vec<ReqSpec>,
}

#[derive(Debug, Clone, Serialize, Deserialize)]
pub struct DeliveryCase {
    pub defs: Vec<InstrumentDef>,
    pub links: Vec<Link>,
    pub trading_enabled_at_start: bool,
    /// the strategy's on-disconnect hook stops algorithmic trading
    #[serde(default)]
    pub disable_on_disconnect: bool,
    /// the strategy's close-positions reaction also cancels the resting orders in scope
    #[serde(default)]
    pub close_also_cancels: bool,
    pub steps: Vec<Step>,
}

pub struct RequestDelivery;

fn link() -> impl Strategy<Value = Link> {
    prop_oneof![8 => Just(Link::Healthy), 1 => Just(Link::Closed), 1 => Just(Link::Missing)]
}

fn step() -> impl Strategy<Value = Step> {
    (
        strat::any_event(true),
        prop::collection::vec(strat::req_spec(true, true), 0..3),
        prop::collection::vec(strat::req_spec(true, true), 0..3),
        prop::bool::weighted(0.55),
    )
        .prop_map(|(event, c, o, active)| Step { event, algo_cancels: if active { c } else { vec![] }, algo_opens: if active { o } else { vec![] } })
}

#[derive(Debug, Clone, PartialEq)]
enum Req {
    Open(OrderRequestOpen),
    Cancel(OrderRequestCancel),
}

impl Req {
    fn exchange(&self) -> ExchangeIndex {
        match self {
            Req::Open(r) => r.key.exchange,
            Req::Cancel(r) => r.key.exchange,
        }
    }
    fn instrument(&self) -> InstrumentIndex {
        match self {
            Req::Open(r) => r.key.instrument,
            Req::Cancel(r) => r.key.instrument,
        }
    }
    fn cid(&self) -> &ClientOrderId {
        match self {
            Req::Open(r) => &r.key.cid,
            Req::Cancel(r) => &r.key.cid,
        }
    }
}

fn order_state(rig: &Rig, inst: InstrumentIndex, cid: &ClientOrderId) -> Option<ActiveOrderState> {
    rig.engine.state.instruments.instrument_index(&inst).orders.0.get(cid).map(|o| o.state.clone())
}

impl Check for RequestDelivery {
    type Case = DeliveryCase;
    const NAME: &'static str = "request_delivery";

    fn normalise(mut case: DeliveryCase) -> DeliveryCase {
        case.defs = crate::props::world::normalise_defs(case.defs, true);
        // full account snapshots are not part of this check's input domain
        case.steps.retain(|s| !matches!(s.event, EvSpec::AccountSnapshot { .. }));
        case
    }


    fn strategy(tier: Tier) -> BoxedStrategy<DeliveryCase> {
        let max = match tier {
            Tier::Quick => 25,
            Tier::Thorough => 50,
        };
        (simple_world(2..=3, 1..4), prop::collection::vec(link(), 3), any::<bool>(), prop::collection::vec(step(), 1..max), prop::bool::weighted(0.3), prop::bool::weighted(0.4))
            .prop_map(|(defs, links, trading_enabled_at_start, steps, disable_on_disconnect, close_also_cancels)| DeliveryCase { defs, links, trading_enabled_at_start, steps, disable_on_disconnect, close_also_cancels })
            .boxed()
    }

    fn eval(case: &DeliveryCase) -> CaseReport {
        let mut rep = CaseReport::new();
        macro_rules! bad {
            ($sig:expr, $($fmt:tt)+) => {{ rep.fail($sig, format!($($fmt)+)); return rep; }};
        }
        let start = if case.trading_enabled_at_start { TradingState::Enabled } else { TradingState::Disabled };
        let mut rig = Rig::new(&case.defs, &case.links, start);
        {
            let mut log = rig.engine.strategy.log.lock().unwrap();
            log.disable_on_disconnect = case.disable_on_disconnect;
            log.close_also_cancels = case.close_also_cancels;
        }
        let (mut stopped_by_disconnect_hook, mut close_with_cancels) = (0u32, 0u32);
        let indexed = rig.indexed.clone();
        let mut resolver = Resolver::new(&indexed);
        let healthy = |rig: &Rig, ex: ExchangeIndex| ex.index() < rig.links.len() && rig.links[ex.index()] == Link::Healthy;

        let (mut n_failed, mut n_refused, mut n_delivered, mut toggles, mut unknown_ex, mut disabled_cmds, mut fatal_ticks) = (0u32, 0u32, 0u32, 0u32, 0u32, 0u32, 0u32);
        let mut cmd_kinds = [false; 4];
        let mut trading = start;
        let mut stopped = false;

        for (n, st) in case.steps.iter().enumerate() {
            if stopped {
                break;
            }
            let event = resolver.resolve(&st.event);
            let algo_cancels: Vec<OrderRequestCancel> = st.algo_cancels.iter().map(|r| resolver.cancel_request(r)).collect();
            let mut algo_opens: Vec<OrderRequestOpen> = Vec::new();
            for r in &st.algo_opens {
                algo_opens.push(resolver.open_request(r));
            }
            unknown_ex += st.algo_cancels.iter().chain(&st.algo_opens).filter(|r| r.unknown_exchange).count() as u32;
            {
                let mut log = rig.engine.strategy.log.lock().unwrap();
                log.script.clear();
                log.script.push_back((algo_cancels.clone(), algo_opens.clone()));
            }
            let calls_before = rig.engine.strategy.log.lock().unwrap().algo_calls;
            let before = rig.engine.state.clone();
            let audit = rig.engine.process(event.clone());
            let received = rig.drain();
            let calls_after = rig.engine.strategy.log.lock().unwrap().algo_calls;
            let ctx_s = format!("event {n} {:?}", st.event);

            let EngineAudit::Process(p) = &audit else { bad!("unexpected-feed-ended", "{ctx_s}: process returned FeedEnded") };
            if p.event != event {
                bad!("audit-event", "{ctx_s}: audit carries a different event");
            }
            let outputs: Vec<_> = p.outputs.iter().cloned().collect();
            let errors: Vec<_> = p.errors.iter().cloned().collect();

            // ---- classify the event ------------------------------------------------------------
            let is_shutdown = matches!(event, EngineEvent::Shutdown(_));
            if let EngineEvent::TradingStateUpdate(t) = &event {
                if *t != trading {
                    toggles += 1;
                }
                trading = *t;
            }
            // a strategy that stops trading from its on-disconnect hook: the engine is disabled from
            // this very event on
            let is_notice = matches!(&event, EngineEvent::Market(barter_data::streams::consumer::MarketStreamEvent::Reconnecting(_)) | EngineEvent::Account(barter::execution::AccountStreamEvent::Reconnecting(_)));
            if is_notice && case.disable_on_disconnect {
                if trading == TradingState::Enabled {
                    stopped_by_disconnect_hook += 1;
                }
                trading = TradingState::Disabled;
            }
            if rig.engine.state.trading != trading {
                bad!("trading-state", "{ctx_s}: engine trading state {:?}, expected {:?}", rig.engine.state.trading, trading);
            }

            // ---- command part --------------------------------------------------------------------
            let mut expected_received: Vec<(usize, Req)> = Vec::new();
            let mut all_sent: Vec<Req> = Vec::new();
            let mut all_failed: Vec<Req> = Vec::new();
            let mut cmd_failed = 0usize;
            let commanded: Vec<&ActionOutput> = outputs.iter().filter_map(|o| if let EngineOutput::Commanded(a) = o { Some(a) } else { None }).collect();
            if let EngineEvent::Command(cmd) = &event {
                if trading == TradingState::Disabled {
                    disabled_cmds += 1;
                }
                if commanded.len() != 1 {
                    bad!("command-output-missing", "{ctx_s}: command produced {} Commanded outputs", commanded.len());
                }
                let (sent, failed): (Vec<Req>, Vec<Req>) = match commanded[0] {
                    ActionOutput::CancelOrders(o) => (o.sent.iter().cloned().map(Req::Cancel).collect(), o.errors.iter().map(|(r, _)| Req::Cancel(r.clone())).collect()),
                    ActionOutput::OpenOrders(o) => (o.sent.iter().cloned().map(Req::Open).collect(), o.errors.iter().map(|(r, _)| Req::Open(r.clone())).collect()),
                    ActionOutput::ClosePositions(o) => (
                        o.cancels.sent.iter().cloned().map(Req::Cancel).chain(o.opens.sent.iter().cloned().map(Req::Open)).collect(),
                        o.cancels.errors.iter().map(|(r, _)| Req::Cancel(r.clone())).chain(o.opens.errors.iter().map(|(r, _)| Req::Open(r.clone()))).collect(),
                    ),
                    ActionOutput::GenerateAlgoOrders(_) => bad!("command-output-kind", "{ctx_s}: command reported as GenerateAlgoOrders"),
                };
                // explicit request commands: sent + failed must be exactly the commanded requests
                match cmd {
                    Command::SendOpenRequests(reqs) => {
                        cmd_kinds[0] = true;
                        let want: Vec<Req> = reqs.iter().cloned().map(Req::Open).collect();
                        let (ws, wf): (Vec<Req>, Vec<Req>) = want.into_iter().partition(|r| healthy(&rig, r.exchange()));
                        if sent != ws || failed != wf {
                            bad!("command-partition", "{ctx_s}: reported sent {sent:?} / failed {failed:?}, expected {ws:?} / {wf:?}");
                        }
                    }
                    Command::SendCancelRequests(reqs) => {
                        cmd_kinds[1] = true;
                        let want: Vec<Req> = reqs.iter().cloned().map(Req::Cancel).collect();
                        let (ws, wf): (Vec<Req>, Vec<Req>) = want.into_iter().partition(|r| healthy(&rig, r.exchange()));
                        if sent != ws || failed != wf {
                            bad!("command-partition", "{ctx_s}: reported sent {sent:?} / failed {failed:?}, expected {ws:?} / {wf:?}");
                        }
                    }
                    Command::CancelOrders(_) => cmd_kinds[2] = true,
                    Command::ClosePositions(_) => {
                        cmd_kinds[3] = true;
                        if sent.iter().any(|r| matches!(r, Req::Cancel(_))) {
                            close_with_cancels += 1;
                        }
                    }
                }
                for r in &sent {
                    if !healthy(&rig, r.exchange()) {
                        bad!("sent-on-dead-link", "{ctx_s}: {r:?} reported sent but the link of {} is {:?}", r.exchange(), rig.links.get(r.exchange().index()));
                    }
                    expected_received.push((r.exchange().index(), r.clone()));
                }
                for r in &failed {
                    if healthy(&rig, r.exchange()) {
                        bad!("failed-on-healthy-link", "{ctx_s}: {r:?} reported failed but the link of {} is healthy", r.exchange());
                    }
                }
                cmd_failed = failed.len();
                all_sent.extend(sent);
                all_failed.extend(failed);
            } else if !commanded.is_empty() {
                bad!("spurious-command-output", "{ctx_s}: Commanded output without a command");
            }

            // ---- strategy part -------------------------------------------------------------------
            let algo_expected = !is_shutdown && trading == TradingState::Enabled && cmd_failed == 0;
            if calls_after - calls_before != algo_expected as u64 {
                bad!("algo-gating", "{ctx_s}: strategy asked for orders {} times, expected {} (trading {:?}, command failures {cmd_failed})", calls_after - calls_before, algo_expected as u64, trading);
            }
            let algo_outputs: Vec<&GenerateAlgoOrdersOutput> = outputs.iter().filter_map(|o| if let EngineOutput::AlgoOrders(a) = o { Some(a) } else { None }).collect();
            let mut algo_failed = 0usize;
            if algo_expected {
                let (c_ref, c_ok): (Vec<_>, Vec<_>) = algo_cancels.iter().cloned().partition(|r| is_refused(&r.key.cid));
                let (o_ref, o_ok): (Vec<_>, Vec<_>) = algo_opens.iter().cloned().partition(|r| is_refused(&r.key.cid));
                let (c_sent, c_fail): (Vec<_>, Vec<_>) = c_ok.into_iter().partition(|r| healthy(&rig, r.key.exchange));
                let (o_sent, o_fail): (Vec<_>, Vec<_>) = o_ok.into_iter().partition(|r| healthy(&rig, r.key.exchange));
                algo_failed = c_fail.len() + o_fail.len();
                n_refused += (c_ref.len() + o_ref.len()) as u32;
                for r in c_sent.iter().cloned().map(Req::Cancel).chain(o_sent.iter().cloned().map(Req::Open)) {
                    expected_received.push((r.exchange().index(), r.clone()));
                    all_sent.push(r);
                }
                all_failed.extend(c_fail.iter().cloned().map(Req::Cancel).chain(o_fail.iter().cloned().map(Req::Open)));
                let nothing = algo_cancels.is_empty() && algo_opens.is_empty();
                if algo_failed > 0 {
                    // fatal: the engine reports the errors (the partial output is dropped; the statement's
                    // first clause is one-directional, so successful deliveries of this tick are only counted)
                    if !algo_outputs.is_empty() {
                        // if it is reported it must be right
                    }
                } else if nothing {
                    if !algo_outputs.is_empty() {
                        bad!("spurious-algo-output", "{ctx_s}: AlgoOrders output although the strategy generated nothing");
                    }
                } else {
                    if algo_outputs.len() != 1 {
                        bad!("algo-output-missing", "{ctx_s}: strategy generated orders but {} AlgoOrders outputs reported", algo_outputs.len());
                    }
                }
                if let Some(a) = algo_outputs.first() {
                    let rs: Vec<_> = a.cancels_and_opens.cancels.sent.iter().cloned().collect();
                    let ro: Vec<_> = a.cancels_and_opens.opens.sent.iter().cloned().collect();
                    let rcf: Vec<_> = a.cancels_and_opens.cancels.errors.iter().map(|(r, _)| r.clone()).collect();
                    let rof: Vec<_> = a.cancels_and_opens.opens.errors.iter().map(|(r, _)| r.clone()).collect();
                    let rcr: Vec<_> = a.cancels_refused.iter().map(|r| r.item.clone()).collect();
                    let ror: Vec<_> = a.opens_refused.iter().map(|r| r.item.clone()).collect();
                    if rs != c_sent || ro != o_sent {
                        bad!("algo-sent-list", "{ctx_s}: reported sent cancels {rs:?} opens {ro:?}, expected {c_sent:?} / {o_sent:?}");
                    }
                    if rcf != c_fail || rof != o_fail {
                        bad!("algo-failed-list", "{ctx_s}: reported failed cancels {rcf:?} opens {rof:?}, expected {c_fail:?} / {o_fail:?}");
                    }
                    if rcr != c_ref || ror != o_ref {
                        bad!("algo-refused-list", "{ctx_s}: reported refused cancels {rcr:?} opens {ror:?}, expected {c_ref:?} / {o_ref:?}");
                    }
                }
            } else if !algo_outputs.is_empty() {
                bad!("algo-output-while-not-generating", "{ctx_s}: AlgoOrders output although generation should not run (trading {:?})", trading);
            }

            // ---- errors: one unrecoverable error per failed delivery; terminal iff any -------------
            let failures = if cmd_failed > 0 { cmd_failed } else { algo_failed };
            if errors.len() != failures {
                bad!("error-count", "{ctx_s}: {} errors reported for {failures} failed deliveries ({all_failed:?})", errors.len());
            }
            let should_be_terminal = is_shutdown || failures > 0;
            if audit.is_terminal() != should_be_terminal {
                bad!("terminal-flag", "{ctx_s}: audit terminal = {}, expected {should_be_terminal}", audit.is_terminal());
            }
            if failures > 0 {
                fatal_ticks += 1;
                stopped = true; // a real engine run stops here
            }
            n_failed += failures as u32;

            // ---- links: received == expected, per link, as multisets --------------------------------
            let mut got: Vec<(usize, Req)> = Vec::new();
            for (link, req) in received {
                match req {
                    ExecutionRequest::Open(r) => got.push((link, Req::Open(r))),
                    ExecutionRequest::Cancel(r) => got.push((link, Req::Cancel(r))),
                    ExecutionRequest::Shutdown => bad!("shutdown-on-link", "{ctx_s}: link {link} received Shutdown from process()"),
                }
            }
            n_delivered += got.len() as u32;
            let mut a = got.iter().map(|(l, r)| format!("{l}:{r:?}")).collect::<Vec<_>>();
            let mut b = expected_received.iter().map(|(l, r)| format!("{l}:{r:?}")).collect::<Vec<_>>();
            a.sort();
            b.sort();
            if a != b {
                bad!("link-deliveries", "{ctx_s}: links received {a:?}, expected exactly {b:?} (each sent request once, on the link of its exchange)");
            }

            // ---- in-flight marks ------------------------------------------------------------------
            let reported: Option<(InstrumentIndex, ClientOrderId)> = match &event {
                EngineEvent::Account(barter::execution::AccountStreamEvent::Item(a)) => match &a.kind {
                    barter_execution::AccountEventKind::OrderSnapshot(s) => Some((s.0.key.instrument, s.0.key.cid.clone())),
                    barter_execution::AccountEventKind::OrderCancelled(c) => Some((c.key.instrument, c.key.cid.clone())),
                    _ => None,
                },
                _ => None,
            };
            let touched_by_event = |inst: InstrumentIndex, cid: &ClientOrderId| -> bool { reported.as_ref().is_some_and(|(i, c)| *i == inst && c == cid) };
            let count_same = |list: &[Req], r: &Req| list.iter().filter(|x| x.instrument() == r.instrument() && x.cid() == r.cid()).count();
            for r in &all_sent {
                if count_same(&all_sent, r) > 1 {
                    continue; // several requests for one order in one tick: mark order is not stated
                }
                let after = order_state(&rig, r.instrument(), r.cid());
                match r {
                    Req::Open(_) => {
                        if !matches!(after, Some(ActiveOrderState::OpenInFlight(_))) {
                            bad!("open-not-in-flight", "{ctx_s}: open {r:?} was sent but the order is {after:?}");
                        }
                    }
                    Req::Cancel(_) => {
                        let was = before.instruments.instrument_index(&r.instrument()).orders.0.get(r.cid()).map(|o| o.state.clone());
                        match (&was, &after) {
                            (_, Some(ActiveOrderState::CancelInFlight(_))) => {}
                            (Some(_), other) if !touched_by_event(r.instrument(), r.cid()) => {
                                bad!("cancel-not-in-flight", "{ctx_s}: cancel {r:?} was sent for a tracked order ({was:?}) but it is now {other:?}");
                            }
                            (None, None) => {}
                            (None, Some(other)) if !touched_by_event(r.instrument(), r.cid()) => {
                                bad!("cancel-created-order", "{ctx_s}: cancel {r:?} for an untracked order left {other:?}");
                            }
                            _ => {}
                        }
                    }
                }
            }
            let refused: Vec<Req> = if algo_expected {
                algo_cancels.iter().filter(|r| is_refused(&r.key.cid)).cloned().map(Req::Cancel).chain(algo_opens.iter().filter(|r| is_refused(&r.key.cid)).cloned().map(Req::Open)).collect()
            } else {
                vec![]
            };
            for r in all_failed.iter().chain(&refused) {
                if count_same(&all_sent, r) > 0 || touched_by_event(r.instrument(), r.cid()) {
                    continue;
                }
                let was = before.instruments.instrument_index(&r.instrument()).orders.0.get(r.cid()).map(|o| o.state.clone());
                let after = order_state(&rig, r.instrument(), r.cid());
                if was != after {
                    bad!("mark-without-delivery", "{ctx_s}: {r:?} was not delivered (failed or refused) yet its order went {was:?} -> {after:?}");
                }
            }

            // ---- while disabled the engine still updates state (witnesses) ----------------------------
            if trading == TradingState::Disabled {
                match (&st.event, &event) {
                    (EvSpec::MarketTrade { inst, dt, .. }, EngineEvent::Market(barter_data::streams::consumer::MarketStreamEvent::Item(m))) if *dt >= 0 => {
                        let d = &rig.engine.state.instruments.instrument_index(&resolver.inst(*inst)).data;
                        if d.last_traded_price.as_ref().map(|t| t.time) != Some(m.time_exchange) {
                            bad!("state-not-updated-while-disabled", "{ctx_s}: fresh market trade not reflected in instrument data while trading is disabled");
                        }
                    }
                    _ => {}
                }
            }
        }
        let has_dead_link = rig.links.iter().any(|l| *l != Link::Healthy);
        rep.class_if(n_failed > 0, "failed_delivery");
        rep.class_if(n_refused > 0, "risk_refusal");
        rep.class_if(n_delivered > 0, "successful_delivery");
        rep.class_if(toggles > 0, "trading_state_toggle");
        rep.class_if(stopped_by_disconnect_hook > 0, "trading_stopped_by_on_disconnect_hook");
        rep.class_if(close_with_cancels > 0, "close_positions_command_also_cancels");
        rep.class_if(unknown_ex > 0, "unknown_exchange_index");
        rep.class_if(disabled_cmds > 0, "command_while_disabled");
        rep.class_if(fatal_ticks > 0, "fatal_tick");
        rep.class_if(has_dead_link, "closed_or_missing_link");
        rep.class_if(cmd_kinds[0], "cmd_send_open");
        rep.class_if(cmd_kinds[1], "cmd_send_cancel");
        rep.class_if(cmd_kinds[2], "cmd_cancel_orders");
        rep.class_if(cmd_kinds[3], "cmd_close_positions");
        rep.nontrivial = (n_failed > 0 || n_refused > 0) && n_delivered > 0;
        rep
    }
}

pub fn run(ctx: &mut Ctx) {
    ctx.rule = "request_delivery: 2..3 exchanges with 3..6 instruments; each exchange's execution link Healthy (60%) / Closed (receiver dropped) / Missing; history vec(step,1..25|50) of engine events (market & account items, reconnect notices, trading-state updates, the four commands incl. requests addressed to an exchange index beyond the link table) each with the cancels/opens the scripted strategy returns if asked (25% marked for refusal by the scripted risk manager, 8% unknown exchange index). In 30% of the cases the strategy's on-disconnect hook stops algorithmic trading (no generation from that very event on), in 40% its close-positions reaction also cancels the resting orders in scope. A history stops at its first fatal tick, as a real run does. non-trivial = >= 1 failed delivery or refusal AND >= 1 successful delivery; distinct by hash of the case. link_routing (shared with C04): 2..6|10 spot instruments over 2..4 exchanges, a generated subset of them with a mock execution link, assembled by ExecutionBuilder on a paused runtime; requests sent through execution_txs.find(exchange index) must be answered with their own keys and a data-only exchange index must resolve to no link.".into();
    ctx.assumptions = vec![
        "a request names an existing instrument and that instrument's exchange, or an exchange index beyond the link table".into(),
        "several requests for the same (instrument, client order id) inside one tick: the resulting in-flight mark is not checked (order of marks is not stated)".into(),
        "in a fatal strategy tick the engine reports the errors but not the partial output; deliveries of such a tick are reconciled against the links only".into(),
    ];
    ctx.run_regressions::<RequestDelivery>();
    ctx.run::<RequestDelivery>(ctx.tier.pick(60_000, 800_000));
    // the same delivery rule on links as a system assembles them (`ExecutionBuilder::build`, traded and
    // data-only exchanges in any index order): a request is delivered to its own exchange's link and
    // answered with its own key, an exchange without a link resolves to no link (C04's `link_routing`
    // check, run here for the "failed => not delivered" half of C03)
    ctx.require_class::<super::c04::LinkRouting>("data_only_exchange_before_traded_one");
    ctx.run_regressions::<super::c04::LinkRouting>();
    ctx.run::<super::c04::LinkRouting>(ctx.tier.pick(4_000, 60_000));
}

pub fn replay(ctx: &mut Ctx, doc: &Value) -> bool {
    ctx.replay::<RequestDelivery>(doc) || ctx.replay::<super::c04::LinkRouting>(doc)
}
