//! C19 — Cancel-orders and close-positions commands act on exactly the filtered scope.
//!
//! Check `command_scope`: a generated engine state (2-3 exchanges, spot + perpetual instruments
//! sharing underlyings; per instrument a mix of in-flight / open / partially filled /
//! cancel-in-flight orders, long / short / no position, price known / unknown) receives a
//! `CancelOrders(filter)` or `ClosePositions(filter)` command through `Engine::process` with the
//! default strategy and healthy links; requests on the links, the audit output and the state
//! before/after are compared with the scope computed independently from the filter.

use crate::framework::{CaseReport, Check, Ctx, Tier};
use crate::props::enginekit::{FilterSpec, Resolver, TestClock, strat};
use crate::props::gens::{ts, T0_MS};
use crate::props::world::{self, DefaultState, InstrumentDef, simple_world};
use barter::{
    EngineEvent, Timed,
    engine::{
        Engine, EngineOutput, Processor,
        action::ActionOutput,
        audit::EngineAudit,
        command::Command,
        execution_tx::MultiExchangeTxMap,
        state::{instrument::filter::InstrumentFilter, position::Position, trading::TradingState},
    },
    execution::request::ExecutionRequest,
    risk::DefaultRiskManager,
    strategy::DefaultStrategy,
};
use barter_data::{books::Level, subscription::book::OrderBookL1};
use barter_execution::{
    AccountEvent, AccountEventKind, AccountSnapshot, InstrumentAccountSnapshot,
    order::{
        Order, OrderKey, OrderKind, TimeInForce,
        id::{ClientOrderId, OrderId, StrategyId},
        request::{OrderRequestCancel, OrderRequestOpen, RequestCancel},
        state::{ActiveOrderState, CancelInFlight, Open, OpenInFlight, OrderState},
    },
    trade::{AssetFees, Trade, TradeId},
};
use barter_instrument::{Side, exchange::ExchangeIndex, instrument::InstrumentIndex};
use barter_integration::channel::{UnboundedRx, UnboundedTx, mpsc_unbounded};
use proptest::prelude::*;
use rust_decimal::Decimal;
use serde::{Deserialize, Serialize};
use serde_json::Value;

#[derive(Debug, Clone, Copy, PartialEq, Eq, Serialize, Deserialize)]
pub enum OrdSpec {
    OpenInFlight,
    Open { filled: u8 },
    CancelInFlightNone,
    CancelInFlightOpen { filled: u8 },
}

#[derive(Debug, Clone, Copy, PartialEq, Eq, Serialize, Deserialize)]
pub enum PosSpec {
    Flat,
    Long(u8),
    Short(u8),
    /// opened with the first quantity, then partially reduced by the second (max != current)
    LongReduced(u8, u8),
    ShortReduced(u8, u8),
}

#[derive(Debug, Clone, Copy, PartialEq, Eq, Serialize, Deserialize)]
pub enum PriceSpec {
    Unknown,
    Trade(u16),
    L1 { bid: u16, ask: u16 },
    /// one-sided book and no trade: no price
    L1OneSided(u16),
}

#[derive(Debug, Clone, PartialEq, Eq, Serialize, Deserialize)]
pub struct InstSpec {
    pub orders: Vec<OrdSpec>,
    pub position: PosSpec,
    pub price: PriceSpec,
    /// rotates the time-in-force of the instrument's orders through GTC / GTC post-only / IOC /
    /// FOK / good-until-end-of-day
    #[serde(default)]
    pub tif: u8,
}

#[derive(Debug, Clone, Serialize, Deserialize)]
pub struct ScopeCase {
    pub defs: Vec<InstrumentDef>,
    /// one per instrument (cycled if shorter)
    pub instruments: Vec<InstSpec>,
    pub filter: FilterSpec,
    pub close_positions: bool,
    #[serde(default)]
    pub shared_cids: bool,
    /// bit e set: the execution link of exchange index e is dead (receiver gone); only used by the
    /// cancel-orders flavour
    #[serde(default)]
    pub dead_links: u8,
    /// bit e set: exchange index e is tracked for market data only — no execution link (an empty slot
    /// in the link table, as `ExecutionBuilder::build` leaves it), hence no orders and no position
    #[serde(default)]
    pub data_only: u8,
}

type ScopeEngine = Engine<TestClock, DefaultState, MultiExchangeTxMap<UnboundedTx<ExecutionRequest>>, DefaultStrategy<DefaultState>, DefaultRiskManager<DefaultState>>;

pub struct CommandScope;

fn inst_spec() -> impl Strategy<Value = InstSpec> {
    (
        prop::collection::vec(
            prop_oneof![
                Just(OrdSpec::OpenInFlight),
                (0u8..1).prop_map(|filled| OrdSpec::Open { filled }),
                (1u8..4).prop_map(|filled| OrdSpec::Open { filled }),
                Just(OrdSpec::CancelInFlightNone),
                (0u8..4).prop_map(|filled| OrdSpec::CancelInFlightOpen { filled }),
            ],
            0..5,
        ),
        prop_oneof![
            2 => Just(PosSpec::Flat),
            1 => (1u8..20).prop_map(PosSpec::Long),
            1 => (1u8..20).prop_map(PosSpec::Short),
            1 => (2u8..20, 1u8..20).prop_map(|(q, r)| PosSpec::LongReduced(q, 1 + r % (q - 1))),
            1 => (2u8..20, 1u8..20).prop_map(|(q, r)| PosSpec::ShortReduced(q, 1 + r % (q - 1))),
        ],
        prop_oneof![
            2 => Just(PriceSpec::Unknown),
            3 => (1u16..2000).prop_map(PriceSpec::Trade),
            3 => (1u16..1000, 1u16..1000).prop_map(|(bid, d)| PriceSpec::L1 { bid, ask: bid + d }),
            1 => (1u16..2000).prop_map(PriceSpec::L1OneSided),
        ],
        0u8..5,
    )
        .prop_map(|(orders, position, price, tif)| InstSpec { orders, position, price, tif })
}

fn matches(filter: &InstrumentFilter, st: &barter::engine::state::instrument::InstrumentState<barter::engine::state::instrument::data::DefaultInstrumentMarketData>) -> bool {
    match filter {
        InstrumentFilter::None => true,
        InstrumentFilter::Exchanges(list) => list.iter().any(|e| *e == st.instrument.exchange),
        InstrumentFilter::Instruments(list) => list.iter().any(|i| *i == st.key),
        InstrumentFilter::Underlyings(list) => list.iter().any(|u| u.base == st.instrument.underlying.base && u.quote == st.instrument.underlying.quote),
    }
}

fn build_state(case: &ScopeCase) -> (barter_instrument::index::IndexedInstruments, DefaultState) {
    let indexed = world::index(&case.defs);
    let mut state = world::engine_state(&indexed, TradingState::Disabled);
    let n = indexed.instruments().len();
    for i in 0..n {
        let spec = &case.instruments[i % case.instruments.len().max(1)];
        let key = InstrumentIndex(i);
        let exchange = indexed.instruments()[i].value.exchange.key;
        let st = state.instruments.instrument_index_mut(&key);
        let data_only = case.data_only & (1 << exchange.index()) != 0;
        for (k, o) in spec.orders.iter().enumerate().filter(|_| !data_only) {
            // ids are unique per instrument; with `shared_cids` every instrument numbers its own
            // orders o0, o1, .. so that instruments share ids
            let cid = ClientOrderId::new(if case.shared_cids { format!("o{k}") } else { format!("i{i}-o{k}") });
            let open = |filled: u8| Open { id: OrderId::new(format!("x{i}-{k}")), time_exchange: ts(T0_MS + 1000 + k as i64), filled_quantity: Decimal::from(filled) };
            let order_state = match o {
                OrdSpec::OpenInFlight => ActiveOrderState::OpenInFlight(OpenInFlight),
                OrdSpec::Open { filled } => ActiveOrderState::Open(open(*filled)),
                OrdSpec::CancelInFlightNone => ActiveOrderState::CancelInFlight(CancelInFlight { order: None }),
                OrdSpec::CancelInFlightOpen { filled } => ActiveOrderState::CancelInFlight(CancelInFlight { order: Some(open(*filled)) }),
            };
            st.orders.0.insert(
                cid.clone(),
                Order {
                    key: OrderKey { exchange, instrument: key, strategy: StrategyId::new("algo"), cid },
                    side: if k % 2 == 0 { Side::Buy } else { Side::Sell },
                    price: Decimal::from(100 + k as u32),
                    quantity: Decimal::from(4),
                    kind: OrderKind::Limit,
                    time_in_force: [
                        TimeInForce::GoodUntilCancelled { post_only: false },
                        TimeInForce::GoodUntilCancelled { post_only: true },
                        TimeInForce::ImmediateOrCancel,
                        TimeInForce::FillOrKill,
                        TimeInForce::GoodUntilEndOfDay,
                    ][(spec.tif as usize + k) % 5],
                    state: order_state,
                },
            );
        }
        let trade = |side: Side, q: u8, n: u8| Trade {
            id: TradeId::new(format!("t{i}-{n}")),
            order_id: OrderId::new(format!("to{i}-{n}")),
            instrument: key,
            strategy: StrategyId::new("algo"),
            time_exchange: ts(T0_MS + 500 + n as i64),
            side,
            price: Decimal::from(50),
            quantity: Decimal::new(q as i64, 1),
            fees: AssetFees::quote_fees(Decimal::new(1, 2)),
        };
        let reduced = |side: Side, q: u8, r: u8| {
            let opposite = if side == Side::Buy { Side::Sell } else { Side::Buy };
            Position::from(&trade(side, q, 0)).update_from_trade(&trade(opposite, r, 1)).0
        };
        let pos = |side: Side, q: u8| {
            Position::from(&Trade {
                id: TradeId::new(format!("t{i}")),
                order_id: OrderId::new(format!("to{i}")),
                instrument: key,
                strategy: StrategyId::new("algo"),
                time_exchange: ts(T0_MS + 500),
                side,
                price: Decimal::from(50),
                quantity: Decimal::new(q as i64, 1),
                fees: AssetFees::quote_fees(Decimal::new(1, 2)),
            })
        };
        st.position.current = match spec.position {
            _ if data_only => None,
            PosSpec::Flat => None,
            PosSpec::Long(q) => Some(pos(Side::Buy, q)),
            PosSpec::Short(q) => Some(pos(Side::Sell, q)),
            PosSpec::LongReduced(q, r) => reduced(Side::Buy, q, r),
            PosSpec::ShortReduced(q, r) => reduced(Side::Sell, q, r),
        };
        match spec.price {
            PriceSpec::Unknown => {}
            PriceSpec::Trade(p) => st.data.last_traded_price = Some(Timed::new(Decimal::new(p as i64 * 25, 2), ts(T0_MS + 700))),
            PriceSpec::L1 { bid, ask } => {
                st.data.l1 = OrderBookL1 {
                    last_update_time: ts(T0_MS + 700),
                    best_bid: Some(Level::new(Decimal::new(bid as i64 * 25, 2), Decimal::from(2))),
                    best_ask: Some(Level::new(Decimal::new(ask as i64 * 25, 2), Decimal::from(3))),
                }
            }
            PriceSpec::L1OneSided(p) => {
                st.data.l1 = OrderBookL1 { last_update_time: ts(T0_MS + 700), best_bid: Some(Level::new(Decimal::new(p as i64 * 25, 2), Decimal::from(2))), best_ask: None }
            }
        }
    }
    (indexed, state)
}

fn drain(receivers: &mut [UnboundedRx<ExecutionRequest>]) -> Vec<(usize, ExecutionRequest)> {
    let mut out = Vec::new();
    for (i, rx) in receivers.iter_mut().enumerate() {
        while let Ok(r) = rx.rx.try_recv() {
            out.push((i, r));
        }
    }
    out
}

impl Check for CommandScope {
    type Case = ScopeCase;
    const NAME: &'static str = "command_scope";

    fn normalise(mut case: ScopeCase) -> ScopeCase {
        case.defs = crate::props::world::normalise_defs(case.defs, true);
        if case.instruments.is_empty() {
            case.instruments.push(InstSpec { orders: vec![], position: PosSpec::Flat, price: PriceSpec::Unknown, tif: 0 });
        }
        for i in &mut case.instruments {
            i.orders.truncate(5);
            for o in &mut i.orders {
                match o {
                    OrdSpec::Open { filled } | OrdSpec::CancelInFlightOpen { filled } => *filled %= 4,
                    _ => {}
                }
            }
            i.position = match i.position {
                PosSpec::Flat => PosSpec::Flat,
                PosSpec::Long(q) => PosSpec::Long(1 + q % 19),
                PosSpec::Short(q) => PosSpec::Short(1 + q % 19),
                PosSpec::LongReduced(q, r) => { let q = 2 + q % 18; PosSpec::LongReduced(q, 1 + r % (q - 1)) }
                PosSpec::ShortReduced(q, r) => { let q = 2 + q % 18; PosSpec::ShortReduced(q, 1 + r % (q - 1)) }
            };
            i.price = match i.price {
                PriceSpec::Unknown => PriceSpec::Unknown,
                PriceSpec::Trade(p) => PriceSpec::Trade(1 + p % 1999),
                PriceSpec::L1 { bid, ask } => { let bid = 1 + bid % 999; PriceSpec::L1 { bid, ask: bid + 1 + ask % 999 } }
                PriceSpec::L1OneSided(p) => PriceSpec::L1OneSided(1 + p % 1999),
            };
        }
        case
    }


    fn strategy(_tier: Tier) -> BoxedStrategy<ScopeCase> {
        (simple_world(2..=3, 1..5), prop::collection::vec(inst_spec(), 1..8), strat::filter_spec(), any::<bool>(), prop::bool::weighted(0.4), prop_oneof![4 => Just(0u8), 1 => 1u8..8], prop_oneof![3 => Just(0u8), 1 => 1u8..8])
            .prop_map(|(defs, instruments, filter, close_positions, shared_cids, dead_links, data_only)| ScopeCase { defs, instruments, filter, close_positions, shared_cids, dead_links, data_only })
            .boxed()
    }

    fn eval(case: &ScopeCase) -> CaseReport {
        let mut rep = CaseReport::new();
        macro_rules! bad {
            ($sig:expr, $($fmt:tt)+) => {{ rep.fail($sig, format!($($fmt)+)); return rep; }};
        }
        let (indexed, state) = build_state(case);
        let mut receivers = Vec::new();
        let txs: MultiExchangeTxMap<UnboundedTx<ExecutionRequest>> = indexed
            .exchanges()
            .iter()
            .map(|e| {
                let (tx, rx) = mpsc_unbounded();
                if case.data_only & (1 << e.key.index()) != 0 {
                    drop(tx);
                    receivers.push(rx);
                    return (e.value, None);
                }
                if !case.close_positions && case.dead_links & (1 << e.key.index()) != 0 {
                    // dead link: the engine's transmitter belongs to a channel whose receiver is gone
                    let (dead_tx, dead_rx) = mpsc_unbounded();
                    drop(dead_rx);
                    drop(tx);
                    receivers.push(rx);
                    return (e.value, Some(dead_tx));
                }
                receivers.push(rx);
                (e.value, Some(tx))
            })
            .collect();
        let dead = |exchange: usize| !case.close_positions && case.dead_links & (1 << exchange) != 0;
        let mut engine: ScopeEngine = Engine::new(TestClock(ts(T0_MS)), state.clone(), txs, DefaultStrategy::default(), DefaultRiskManager::default());
        let resolver = Resolver::new(&indexed);
        let filter = resolver.filter(&case.filter);
        let before = state;
        // the scope is computed from the case's own selection (not from the filter value the
        // constructors returned)
        let n_ex = indexed.exchanges().len();
        let n_inst = indexed.instruments().len();
        let in_scope: Vec<bool> = before
            .instruments
            .0
            .values()
            .map(|st| match &case.filter {
                crate::props::enginekit::FilterSpec::None => true,
                crate::props::enginekit::FilterSpec::Exchanges(v) => v.iter().any(|e| ExchangeIndex(*e as usize % (n_ex + 1)) == st.instrument.exchange),
                crate::props::enginekit::FilterSpec::Instruments(v) => v.iter().any(|i| InstrumentIndex(*i as usize % (n_inst + 1)) == st.key),
                crate::props::enginekit::FilterSpec::Underlyings(v) => v.iter().any(|i| {
                    let u = &indexed.instruments()[*i as usize % n_inst].value.underlying;
                    u.base == st.instrument.underlying.base && u.quote == st.instrument.underlying.quote
                }),
            })
            .collect();
        if in_scope != before.instruments.0.values().map(|st| matches(&filter, st)).collect::<Vec<bool>>() {
            bad!("filter-constructor", "the filter built for selection {:?} is {filter:?}: it selects other instruments than the selection names", case.filter);
        }
        let n_match = in_scope.iter().filter(|b| **b).count();

        // every filtered accessor yields exactly the matching instruments
        {
            let keys = |v: Vec<InstrumentIndex>| v;
            let want_keys: Vec<InstrumentIndex> = before.instruments.0.values().zip(&in_scope).filter(|(_, m)| **m).map(|(st, _)| st.key).collect();
            let got = keys(before.instruments.instruments(&filter).map(|st| st.key).collect());
            let mut scratch = before.clone();
            let got_mut = keys(scratch.instruments.instruments_mut(&filter).map(|st| st.key).collect());
            let n_orders = before.instruments.orders(&filter).count();
            let n_pos = before.instruments.positions(&filter).count();
            let n_data = before.instruments.instrument_datas(&filter).count();
            let n_data_mut = scratch.instruments.instrument_datas_mut(&filter).count();
            let n_ts = before.instruments.tear_sheets(&filter).count();
            if got != want_keys || got_mut != want_keys || [n_orders, n_pos, n_data, n_data_mut, n_ts].iter().any(|n| *n != want_keys.len()) {
                bad!("filtered-accessors", "filter {filter:?}: instruments() -> {got:?}, instruments_mut() -> {got_mut:?}, counts orders/positions/datas/datas_mut/tear_sheets = {n_orders}/{n_pos}/{n_data}/{n_data_mut}/{n_ts}, matching instruments are {want_keys:?}");
            }
        }

        let command = if case.close_positions { Command::ClosePositions(filter.clone()) } else { Command::CancelOrders(filter.clone()) };
        let audit = engine.process(EngineEvent::Command(command.clone()));
        let received = drain(&mut receivers);
        let EngineAudit::Process(p) = &audit else { bad!("unexpected-feed-ended", "FeedEnded from process") };
        if !p.errors.is_none() && (case.close_positions || case.dead_links == 0) {
            bad!("unexpected-errors", "healthy links, yet errors {:?}", p.errors);
        }
        let outputs: Vec<_> = p.outputs.iter().collect();
        if outputs.len() != 1 {
            bad!("output-count", "command produced {} outputs", outputs.len());
        }

        let mut both_kinds_in_one = false;
        let mut dead_in_scope = false;
        let mut resynced_orders = 0usize;
        let mut pos_with_and_without_price = (false, false);

        if !case.close_positions {
            // ---- expected cancel set ---------------------------------------------------------------
            let mut expected: Vec<(usize, OrderRequestCancel)> = Vec::new();
            for (i, st) in before.instruments.0.values().enumerate() {
                if !in_scope[i] {
                    continue;
                }
                let mut has_cancellable = false;
                let mut has_cif = false;
                for o in st.orders.0.values() {
                    match &o.state {
                        ActiveOrderState::OpenInFlight(_) => {
                            has_cancellable = true;
                            expected.push((st.instrument.exchange.index(), OrderRequestCancel { key: o.key.clone(), state: RequestCancel { id: None } }));
                        }
                        ActiveOrderState::Open(open) => {
                            has_cancellable = true;
                            expected.push((st.instrument.exchange.index(), OrderRequestCancel { key: o.key.clone(), state: RequestCancel { id: Some(open.id.clone()) } }));
                        }
                        ActiveOrderState::CancelInFlight(_) => has_cif = true,
                    }
                }
                both_kinds_in_one |= has_cancellable && has_cif;
            }
            let EngineOutput::Commanded(ActionOutput::CancelOrders(out)) = outputs[0] else { bad!("output-kind", "CancelOrders reported as {:?}", outputs[0]) };
            // requests for an exchange whose link is dead are reported with their error, not delivered,
            // and leave no mark; everything else in scope is still cancelled
            let (expected_dead, expected): (Vec<_>, Vec<_>) = expected.into_iter().partition(|(l, _)| dead(*l));
            let mut failed: Vec<String> = out.errors.iter().map(|(r, _)| format!("{}:{r:?}", r.key.exchange.index())).collect();
            let mut want_failed: Vec<String> = expected_dead.iter().map(|(l, r)| format!("{l}:{r:?}")).collect();
            failed.sort();
            want_failed.sort();
            if failed != want_failed {
                bad!("cancel-errors", "filter {filter:?}, dead links {:#b}: requests reported as failed {failed:?}, the in-scope orders on dead links are {want_failed:?}", case.dead_links);
            }
            dead_in_scope = !want_failed.is_empty();
            let mut reported: Vec<String> = out.sent.iter().map(|r| format!("{}:{r:?}", r.key.exchange.index())).collect();
            let mut got: Vec<String> = Vec::new();
            for (link, r) in &received {
                match r {
                    ExecutionRequest::Cancel(c) => got.push(format!("{link}:{c:?}")),
                    other => bad!("unexpected-request-kind", "cancel-orders put {other:?} on link {link}"),
                }
            }
            let mut want: Vec<String> = expected.iter().map(|(l, r)| format!("{l}:{r:?}")).collect();
            reported.sort();
            got.sort();
            want.sort();
            if got != want {
                bad!("cancel-scope", "filter {filter:?}: links received cancels {got:?}, the filtered scope is {want:?}");
            }
            if reported != want {
                bad!("cancel-report", "filter {filter:?}: audit reports sent {reported:?}, the filtered scope is {want:?}");
            }
            // ---- state afterwards --------------------------------------------------------------------
            for (i, (b, a)) in before.instruments.0.values().zip(engine.state.instruments.0.values()).enumerate() {
                if !in_scope[i] {
                    if a != b {
                        bad!("out-of-scope-changed", "instrument {i} is outside filter {filter:?} but its state changed");
                    }
                    continue;
                }
                let mut b2 = b.clone();
                for o in b2.orders.0.values_mut() {
                    let meta = o.state.open_meta().cloned();
                    if !matches!(o.state, ActiveOrderState::CancelInFlight(_)) && !dead(b.instrument.exchange.index()) {
                        o.state = ActiveOrderState::CancelInFlight(CancelInFlight { order: meta });
                    }
                }
                if *a != b2 {
                    bad!("in-scope-state", "instrument {i} after cancel-orders: orders {:?}, expected every order cancel-in-flight keeping its open data {:?} and nothing else changed", a.orders, b2.orders);
                }
            }
            // ---- repeated command requests nothing new (a tick with a dead link is fatal: the run
            // ends there) -------------------------------------------------------------------------------
            if case.dead_links != 0 {
                rep.class_if(dead_in_scope && !got.is_empty(), "dead_link_and_healthy_link_both_in_scope");
                classify_scope(&mut rep, case, n_match, in_scope.len(), both_kinds_in_one, pos_with_and_without_price);
                return rep;
            }
            // In half of the cases every exchange re-sends a full account snapshot before the repeat (what a
            // re-connected account stream delivers first): the exchange has not processed the cancels yet,
            // so it still lists every order it knows as open, with the open data the engine already holds.
            // No cancel was answered: the first command is still in flight.
            let resync = case.instruments.len() % 2 == 1;
            if resync {
                let mut per_exchange: Vec<(ExchangeIndex, Vec<InstrumentAccountSnapshot>)> = Vec::new();
                for st in engine.state.instruments.0.values() {
                    let orders: Vec<_> = st
                        .orders
                        .0
                        .values()
                        .filter_map(|o| match &o.state {
                            ActiveOrderState::CancelInFlight(CancelInFlight { order: Some(open) }) | ActiveOrderState::Open(open) => Some(Order {
                                key: o.key.clone(),
                                side: o.side,
                                price: o.price,
                                quantity: o.quantity,
                                kind: o.kind,
                                time_in_force: o.time_in_force,
                                state: OrderState::active(open.clone()),
                            }),
                            _ => None,
                        })
                        .collect();
                    if orders.is_empty() {
                        continue;
                    }
                    resynced_orders += orders.len();
                    let item = InstrumentAccountSnapshot { instrument: st.key, orders };
                    match per_exchange.iter_mut().find(|(e, _)| *e == st.instrument.exchange) {
                        Some((_, v)) => v.push(item),
                        None => per_exchange.push((st.instrument.exchange, vec![item])),
                    }
                }
                for (exchange, instruments) in per_exchange {
                    let _ = engine.process(AccountEvent { exchange, kind: AccountEventKind::Snapshot(AccountSnapshot { exchange, balances: vec![], instruments }) }.into());
                }
                let stray = drain(&mut receivers);
                if !stray.is_empty() {
                    bad!("resync-sent", "an account snapshot between the two commands made the engine send {stray:?}");
                }
            }
            let snapshot = engine.state.clone();
            let audit2 = engine.process(EngineEvent::Command(command));
            let again = drain(&mut receivers);
            if !again.is_empty() {
                bad!("repeat-cancel-sent", "repeating the cancel command while the first is in flight (full account snapshot in between: {resync}) sent {again:?}");
            }
            match &audit2 {
                EngineAudit::Process(p2) => match p2.outputs.iter().next() {
                    Some(EngineOutput::Commanded(ActionOutput::CancelOrders(o2))) if o2.sent.is_none() && o2.errors.is_none() => {}
                    other => bad!("repeat-cancel-report", "repeated cancel command reports {other:?}"),
                },
                _ => bad!("unexpected-feed-ended", "FeedEnded from process"),
            }
            if engine.state != snapshot {
                bad!("repeat-cancel-state", "repeated cancel command changed engine state");
            }
            rep.class_if(resynced_orders > 0, "repeat_after_full_account_snapshot_listing_orders_open");
        } else {
            // ---- expected close set ------------------------------------------------------------------
            struct Want {
                link: usize,
                exchange: ExchangeIndex,
                inst: InstrumentIndex,
                side: Side,
                qty: Decimal,
                price: Decimal,
            }
            let mut want: Vec<Want> = Vec::new();
            for (i, st) in before.instruments.0.values().enumerate() {
                if !in_scope[i] {
                    continue;
                }
                let Some(pos) = &st.position.current else { continue };
                use barter::engine::state::instrument::data::InstrumentDataState;
                match st.data.price() {
                    None => pos_with_and_without_price.1 = true,
                    Some(price) => {
                        pos_with_and_without_price.0 = true;
                        want.push(Want {
                            link: st.instrument.exchange.index(),
                            exchange: st.instrument.exchange,
                            inst: st.key,
                            side: if pos.side == Side::Buy { Side::Sell } else { Side::Buy },
                            qty: pos.quantity_abs,
                            price,
                        });
                    }
                }
            }
            let EngineOutput::Commanded(ActionOutput::ClosePositions(out)) = outputs[0] else { bad!("output-kind", "ClosePositions reported as {:?}", outputs[0]) };
            if !out.cancels.is_empty() || !out.opens.errors.is_none() {
                bad!("close-unexpected", "close-positions with the default strategy produced cancels/errors: {out:?}");
            }
            let opens: Vec<(usize, OrderRequestOpen)> = {
                let mut v = Vec::new();
                for (link, r) in &received {
                    match r {
                        ExecutionRequest::Open(o) => v.push((*link, o.clone())),
                        other => bad!("unexpected-request-kind", "close-positions put {other:?} on link {link}"),
                    }
                }
                v
            };
            let mut rep_sent: Vec<String> = out.opens.sent.iter().map(|r| format!("{r:?}")).collect();
            let mut got_sent: Vec<String> = opens.iter().map(|(_, r)| format!("{r:?}")).collect();
            rep_sent.sort();
            got_sent.sort();
            if rep_sent != got_sent {
                bad!("close-report", "audit reports opens {rep_sent:?} but links received {got_sent:?}");
            }
            if opens.len() != want.len() {
                bad!("close-scope", "filter {filter:?}: {} close orders sent for instruments {:?}, expected one each for {:?}", opens.len(), opens.iter().map(|(_, o)| o.key.instrument).collect::<Vec<_>>(), want.iter().map(|w| w.inst).collect::<Vec<_>>());
            }
            for w in &want {
                let mine: Vec<&(usize, OrderRequestOpen)> = opens.iter().filter(|(_, o)| o.key.instrument == w.inst).collect();
                if mine.len() != 1 {
                    bad!("close-scope", "filter {filter:?}: {} close orders for {} (position + price present), expected exactly one", mine.len(), w.inst);
                }
                let (link, o) = mine[0];
                if *link != w.link || o.key.exchange != w.exchange {
                    bad!("close-routing", "close order for {} went to link {link} / exchange {}, instrument trades on {}", w.inst, o.key.exchange, w.exchange);
                }
                if o.state.side != w.side || o.state.quantity != w.qty || o.state.price != w.price || o.state.kind != OrderKind::Market || o.state.time_in_force != TimeInForce::ImmediateOrCancel {
                    bad!("close-order-terms", "close order for {}: {:?}, expected {:?} {} @ {} Market/IOC", w.inst, o.state, w.side, w.qty, w.price);
                }
            }
            let mut cids: Vec<&ClientOrderId> = opens.iter().map(|(_, o)| &o.key.cid).collect();
            cids.sort();
            cids.dedup();
            if cids.len() != opens.len() {
                bad!("close-cids-not-distinct", "close orders share client order ids: {:?}", opens.iter().map(|(_, o)| &o.key.cid).collect::<Vec<_>>());
            }
            // state: each sent order recorded in flight, nothing else changes
            let mut expected_state = before.clone();
            for (_, o) in &opens {
                expected_state.instruments.instrument_index_mut(&o.key.instrument).orders.0.insert(o.key.cid.clone(), Order::from(o));
            }
            if engine.state != expected_state {
                bad!("close-state", "after close-positions the state differs from: sent orders recorded open-in-flight, nothing else changed");
            }
        }

        classify_scope(&mut rep, case, n_match, in_scope.len(), both_kinds_in_one, pos_with_and_without_price);
        rep
    }
}

fn classify_scope(rep: &mut CaseReport, case: &ScopeCase, n_match: usize, n_total: usize, both_kinds_in_one: bool, pos_with_and_without_price: (bool, bool)) {
    let strict_subset = n_match > 0 && n_match < n_total;
    rep.class(match case.filter {
        FilterSpec::None => "filter_none",
        FilterSpec::Exchanges(_) => "filter_exchanges",
        FilterSpec::Instruments(_) => "filter_instruments",
        FilterSpec::Underlyings(_) => "filter_underlyings",
    });
    rep.class(if case.close_positions { "close_positions" } else { "cancel_orders" });
    rep.class_if(strict_subset, "filter_matches_strict_subset");
    rep.class_if(n_match == 0, "filter_matches_nothing");
    rep.class_if(case.shared_cids, "instruments_share_client_order_ids");
    rep.class_if(matches!(&case.filter, crate::props::enginekit::FilterSpec::Exchanges(v) | crate::props::enginekit::FilterSpec::Instruments(v) | crate::props::enginekit::FilterSpec::Underlyings(v) if v.is_empty()), "empty_selection");
    rep.class_if(both_kinds_in_one, "cancellable_and_cancel_in_flight_together");
    rep.class_if(pos_with_and_without_price.0 && pos_with_and_without_price.1, "position_with_and_without_price");
    rep.class_if(case.dead_links != 0 && !case.close_positions, "cancel_orders_with_a_dead_link");
    rep.class_if((0..7).any(|e| case.data_only & (1 << e) != 0 && case.data_only & (1 << (e + 1)) == 0 && (e + 1) < crate::props::world::index(&case.defs).exchanges().len()), "data_only_exchange_before_a_traded_one");
    rep.nontrivial = strict_subset && (both_kinds_in_one || (pos_with_and_without_price.0 && pos_with_and_without_price.1));
}

pub fn run(ctx: &mut Ctx) {
    ctx.rule = "command_scope: 2..3 exchanges, 3..7 instruments (spot and perpetual on shared underlyings), per instrument 0..4 orders in {open-in-flight, open, partially filled open, cancel-in-flight with/without open data} with time in force rotating through GTC / post-only / IOC / FOK / end-of-day, (in 40% of the cases every instrument numbers its own orders, so instruments share client order ids), flat/long/short position, price unknown / last trade / two-sided L1 / one-sided L1; filter in {none, exchange subsets, instrument subsets, underlying subsets} incl. keys absent from the state and empty selections (built through the public constructors: they select nothing); command CancelOrders (issued twice, in half of the cases with a full account snapshot per exchange in between that still lists the orders as open; in a fifth of the cases some exchanges' links are dead: their requests are reported failed and leave no mark, the rest of the scope is still cancelled) or ClosePositions through Engine::process with DefaultStrategy on healthy links. non-trivial = filter matches a strict non-empty subset AND (a matching instrument holds both a cancellable and a cancel-in-flight order, or matching positions with and without a price exist); distinct by hash of the case.".into();
    ctx.assumptions = vec!["an instrument's market price is what InstrumentDataState::price() reports (documented: volume-weighted mid of a two-sided L1, else last traded price)".into()];
    ctx.run_regressions::<CommandScope>();
    ctx.run::<CommandScope>(ctx.tier.pick(60_000, 1_000_000));
}

pub fn replay(ctx: &mut Ctx, doc: &Value) -> bool {
    ctx.replay::<CommandScope>(doc)
}
