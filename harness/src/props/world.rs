//! Shared "world" generators: instrument collections over several exchanges, engine states.

use crate::props::gens::{ts, T0_MS};
use barter::engine::state::{
    EngineState, global::DefaultGlobalData, instrument::data::DefaultInstrumentMarketData,
    trading::TradingState,
};
use barter_instrument::{
    Underlying,
    asset::Asset,
    exchange::ExchangeId,
    index::IndexedInstruments,
    instrument::{
        Instrument,
        kind::{
            InstrumentKind,
            future::FutureContract,
            option::{OptionContract, OptionExercise, OptionKind},
            perpetual::PerpetualContract,
        },
        quote::InstrumentQuoteAsset,
        spec::{
            InstrumentSpec, InstrumentSpecNotional, InstrumentSpecPrice, InstrumentSpecQuantity,
            OrderQuantityUnits,
        },
    },
};
use proptest::prelude::*;
use rust_decimal::Decimal;
use serde::{Deserialize, Serialize};

/// Pool of exchanges used by generated collections (sorted order of `ExchangeId` is the order of
/// the enum, deliberately not the order of this pool).
/// `Mock` is declared first in the `ExchangeId` enum but sorts between "kraken" and "okx" by
/// name: with it among the first pool entries, index order (enum order) and alphabetical order of
/// exchange / instrument names disagree in most multi-exchange collections.
pub const EXCHANGES: [ExchangeId; 5] = [
    ExchangeId::BinanceSpot,
    ExchangeId::Mock,
    ExchangeId::Okx,
    ExchangeId::Kraken,
    ExchangeId::Coinbase,
];

/// Pool of internal asset names.
pub const ASSETS: [&str; 7] = ["btc", "eth", "usdt", "usd", "sol", "usdc", "xrp"];

/// The one exchange name an asset has on an exchange (precondition: one exchange name per
/// (exchange, internal asset name)). Kraken uses its own aliases, everyone else upper-case.
pub fn asset_name_exchange(exchange: ExchangeId, internal: &str) -> String {
    match (exchange, internal) {
        (ExchangeId::Kraken, "btc") => "XBT".to_string(),
        (ExchangeId::Kraken, "usd") => "ZUSD".to_string(),
        (ExchangeId::Coinbase, a) => a.to_string(),
        (_, a) => a.to_uppercase(),
    }
}

/// Contract size of a derivative definition (1, 0.01 or 10, tied to the settlement selector so that
/// it is part of the definition).
pub fn contract_size_of(settle: u8) -> Decimal {
    [Decimal::ONE, Decimal::new(1, 2), Decimal::from(10)][(settle as usize % ASSETS.len()) % 3]
}

pub fn asset_def(exchange: ExchangeId, idx: u8) -> Asset {
    let internal = ASSETS[idx as usize % ASSETS.len()];
    Asset::new(internal, asset_name_exchange(exchange, internal))
}

#[derive(Debug, Clone, Copy, PartialEq, Eq, Hash, PartialOrd, Ord, Serialize, Deserialize)]
pub enum KindDef {
    Spot,
    Perpetual { settle: u8 },
    Future { settle: u8, expiry_day: u8 },
    Option { settle: u8, expiry_day: u8, call: bool, strike: u16 },
}

#[derive(Debug, Clone, Copy, PartialEq, Eq, Hash, PartialOrd, Ord, Serialize, Deserialize)]
pub enum UnitDef {
    NoSpec,
    Quote,
    Contract,
    Asset(u8),
}

#[derive(Debug, Clone, Copy, PartialEq, Eq, Hash, PartialOrd, Ord, Serialize, Deserialize)]
pub struct InstrumentDef {
    pub exchange: u8,
    pub base: u8,
    pub quote: u8,
    pub kind: KindDef,
    pub unit: UnitDef,
}

impl InstrumentDef {
    pub fn exchange_id(&self) -> ExchangeId {
        EXCHANGES[self.exchange as usize % EXCHANGES.len()]
    }

    fn tag(&self) -> String {
        let kind = match self.kind {
            KindDef::Spot => "spot".to_string(),
            KindDef::Perpetual { settle } => format!("perp{}", settle % ASSETS.len() as u8),
            KindDef::Future { settle, expiry_day } => format!("fut{}d{}", settle % ASSETS.len() as u8, expiry_day),
            KindDef::Option { settle, expiry_day, call, strike } => {
                format!("opt{}d{}{}{}", settle % ASSETS.len() as u8, expiry_day, if call { "c" } else { "p" }, strike)
            }
        };
        let unit = match self.unit {
            UnitDef::NoSpec => "n".to_string(),
            UnitDef::Quote => "q".to_string(),
            UnitDef::Contract => "c".to_string(),
            UnitDef::Asset(a) => format!("a{}", a % ASSETS.len() as u8),
        };
        format!("{kind}{unit}")
    }

    /// Exchange-side instrument name: deliberately identical across exchanges for the same
    /// underlying/kind ("BTCUSDT" on two venues), unique inside one exchange.
    pub fn name_exchange(&self) -> String {
        let b = ASSETS[self.base as usize % ASSETS.len()].to_uppercase();
        let q = ASSETS[self.quote as usize % ASSETS.len()].to_uppercase();
        let tag = self.tag();
        if tag == "spotn" {
            format!("{b}{q}")
        } else {
            format!("{b}{q}-{}", tag.to_uppercase())
        }
    }

    /// Internal name: unique across all exchanges (documented requirement), a function of the
    /// whole definition so that only identical definitions share it.
    pub fn name_internal(&self) -> String {
        format!(
            "{}-{}_{}-{}",
            self.exchange_id().as_str(),
            ASSETS[self.base as usize % ASSETS.len()],
            ASSETS[self.quote as usize % ASSETS.len()],
            self.tag()
        )
    }

    pub fn to_instrument(&self) -> Instrument<ExchangeId, Asset> {
        let ex = self.exchange_id();
        let kind = match self.kind {
            KindDef::Spot => InstrumentKind::Spot,
            KindDef::Perpetual { settle } => InstrumentKind::Perpetual(PerpetualContract {
                contract_size: contract_size_of(settle),
                settlement_asset: asset_def(ex, settle),
            }),
            KindDef::Future { settle, expiry_day } => InstrumentKind::Future(FutureContract {
                contract_size: contract_size_of(settle),
                settlement_asset: asset_def(ex, settle),
                expiry: ts(T0_MS + 86_400_000 * (30 + expiry_day as i64)),
            }),
            KindDef::Option { settle, expiry_day, call, strike } => InstrumentKind::Option(OptionContract {
                contract_size: contract_size_of(settle),
                settlement_asset: asset_def(ex, settle),
                kind: if call { OptionKind::Call } else { OptionKind::Put },
                exercise: OptionExercise::European,
                expiry: ts(T0_MS + 86_400_000 * (30 + expiry_day as i64)),
                strike: Decimal::from(strike as u32 + 1),
            }),
        };
        let spec = match self.unit {
            UnitDef::NoSpec => None,
            u => Some(InstrumentSpec::new(
                InstrumentSpecPrice::new(Decimal::new(1, 2), Decimal::new(1, 2)),
                InstrumentSpecQuantity::new(
                    match u {
                        UnitDef::Quote => OrderQuantityUnits::Quote,
                        UnitDef::Contract => OrderQuantityUnits::Contract,
                        UnitDef::Asset(a) => OrderQuantityUnits::Asset(asset_def(ex, a)),
                        UnitDef::NoSpec => unreachable!(),
                    },
                    Decimal::new(1, 5),
                    Decimal::new(1, 5),
                ),
                InstrumentSpecNotional::new(Decimal::ONE),
            )),
        };
        Instrument::new(
            ex,
            self.name_internal(),
            self.name_exchange(),
            Underlying { base: asset_def(ex, self.base), quote: asset_def(ex, self.quote) },
            InstrumentQuoteAsset::UnderlyingQuote,
            kind,
            spec,
        )
    }
}

pub fn kind_def() -> impl Strategy<Value = KindDef> {
    prop_oneof![
        5 => Just(KindDef::Spot),
        2 => (0u8..7).prop_map(|settle| KindDef::Perpetual { settle }),
        1 => (0u8..7, 0u8..3).prop_map(|(settle, expiry_day)| KindDef::Future { settle, expiry_day }),
        1 => (0u8..7, 0u8..3, any::<bool>(), 0u16..3)
            .prop_map(|(settle, expiry_day, call, strike)| KindDef::Option { settle, expiry_day, call, strike }),
    ]
}

pub fn unit_def() -> impl Strategy<Value = UnitDef> {
    prop_oneof![
        4 => Just(UnitDef::NoSpec),
        1 => Just(UnitDef::Quote),
        1 => Just(UnitDef::Contract),
        2 => (0u8..7).prop_map(UnitDef::Asset),
    ]
}

/// One instrument definition over `n_exchanges` exchanges of the pool.
pub fn instrument_def(n_exchanges: u8) -> impl Strategy<Value = InstrumentDef> {
    (0..n_exchanges, 0u8..7, 0u8..6, kind_def(), unit_def()).prop_map(|(exchange, base, dq, kind, unit)| {
        // quote != base
        let quote = (base + 1 + dq) % 7;
        InstrumentDef { exchange, base, quote, kind, unit }
    })
}

/// Simple (spot / perpetual, no spec) definitions: used where the collection is only a backdrop.
pub fn simple_instrument_def(n_exchanges: u8) -> impl Strategy<Value = InstrumentDef> {
    (0..n_exchanges, 0u8..4, 0u8..3, any::<bool>()).prop_map(|(exchange, base, dq, perp)| {
        let quote = (base + 1 + dq) % 4;
        InstrumentDef {
            exchange,
            base,
            quote,
            kind: if perp { KindDef::Perpetual { settle: quote } } else { KindDef::Spot },
            unit: UnitDef::NoSpec,
        }
    })
}

/// A collection of `min..=max` *distinct* simple definitions guaranteed to cover exchanges
/// `0..n_exchanges` (each at least once), in generated order.
pub fn simple_world(n_exchanges: std::ops::RangeInclusive<u8>, extra: std::ops::Range<usize>) -> impl Strategy<Value = Vec<InstrumentDef>> {
    n_exchanges.prop_flat_map(move |n| {
        (
            // one per exchange
            prop::collection::vec((0u8..4, 0u8..3, any::<bool>()), n as usize),
            prop::collection::vec(simple_instrument_def(n), extra.clone()),
        )
            .prop_map(move |(firsts, rest)| {
                let mut defs: Vec<InstrumentDef> = firsts
                    .into_iter()
                    .enumerate()
                    .map(|(e, (base, dq, perp))| {
                        let quote = (base + 1 + dq) % 4;
                        InstrumentDef {
                            exchange: e as u8,
                            base,
                            quote,
                            kind: if perp { KindDef::Perpetual { settle: quote } } else { KindDef::Spot },
                            unit: UnitDef::NoSpec,
                        }
                    })
                    .collect();
                for d in rest {
                    if !defs.contains(&d) {
                        defs.push(d);
                    }
                }
                defs
            })
    })
}

/// Project arbitrary definitions into the domain the generators produce: pool-bounded selectors,
/// base != quote, no duplicates, at least one instrument.
pub fn normalise_defs(defs: Vec<InstrumentDef>, simple_only: bool) -> Vec<InstrumentDef> {
    let na = ASSETS.len() as u8;
    let mut out: Vec<InstrumentDef> = Vec::new();
    for mut d in defs.into_iter().take(16) {
        d.exchange %= EXCHANGES.len() as u8;
        d.base %= na;
        d.quote %= na;
        if d.quote == d.base {
            d.quote = (d.base + 1) % na;
        }
        d.kind = match d.kind {
            KindDef::Spot => KindDef::Spot,
            KindDef::Perpetual { settle } => KindDef::Perpetual { settle: settle % na },
            KindDef::Future { settle, expiry_day } if !simple_only => KindDef::Future { settle: settle % na, expiry_day: expiry_day % 3 },
            KindDef::Option { settle, expiry_day, call, strike } if !simple_only => KindDef::Option { settle: settle % na, expiry_day: expiry_day % 3, call, strike: strike % 3 },
            _ => KindDef::Spot,
        };
        d.unit = match d.unit {
            UnitDef::Asset(a) if !simple_only => UnitDef::Asset(a % na),
            u if !simple_only => u,
            _ => UnitDef::NoSpec,
        };
        if !out.contains(&d) {
            out.push(d);
        }
    }
    if out.is_empty() {
        out.push(InstrumentDef { exchange: 0, base: 0, quote: 2, kind: KindDef::Spot, unit: UnitDef::NoSpec });
    }
    out
}

pub fn index(defs: &[InstrumentDef]) -> IndexedInstruments {
    IndexedInstruments::new(defs.iter().map(|d| d.to_instrument()))
}

pub type DefaultState = EngineState<DefaultGlobalData, DefaultInstrumentMarketData>;

pub fn engine_state(indexed: &IndexedInstruments, trading: TradingState) -> DefaultState {
    EngineState::builder(indexed, DefaultGlobalData, DefaultInstrumentMarketData::default)
        .time_engine_start(ts(T0_MS))
        .trading_state(trading)
        .build()
}
