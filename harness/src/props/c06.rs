//! C06 — Binance L2 streams never leave a silently wrong local book.
//!
//! Check `binance_l2_stream`: per instrument a simulated venue (atomic changes with consecutive
//! ids on a price grid, grouped into diff messages carrying absolute amounts), a REST snapshot at
//! any id and a perturbed delivery (drop / duplicate / swap / replay-old-prefix / start late or
//! early / none) of the message stream, 2-3 instruments interleaved on one connection. Messages are
//! synthesised as JSON, deserialised into the connector's input type, passed through
//! `Binance{Spot,FuturesUsd}OrderBooksL2Transformer` (initialised with `ExchangeTransformer::init`
//! from mapper-generated subscription ids) and applied to `OrderBook::update`; error outputs also go
//! through the real `with_termination_on_error` combinator.

use crate::framework::{CaseReport, Check, Ctx, Tier};
use barter_data::{
    books::OrderBook,
    error::DataError,
    event::MarketEvent,
    exchange::binance::{
        book::l2::BinanceOrderBookL2Snapshot,
        futures::{BinanceFuturesUsd, l2::BinanceFuturesUsdOrderBooksL2Transformer},
        spot::{BinanceSpot, l2::BinanceSpotOrderBooksL2Transformer},
    },
    streams::{consumer::StreamKey, reconnect::stream::ReconnectingStream},
    subscriber::mapper::{SubscriptionMapper, WebSocketSubMapper},
    subscription::{
        Subscription,
        book::{OrderBookEvent, OrderBooksL2},
    },
    transformer::ExchangeTransformer,
};
use barter_instrument::{
    Keyed,
    exchange::ExchangeId,
    instrument::market_data::{MarketDataInstrument, kind::MarketDataInstrumentKind},
};
use barter_integration::Transformer;
use futures::StreamExt;
use proptest::prelude::*;
use rust_decimal::Decimal;
use serde::{Deserialize, Serialize};
use serde_json::{Value, json};
use std::collections::BTreeMap;

const BASES: [&str; 8] = ["btc", "eth", "sol", "xrp", "ada", "doge", "ltc", "1inch"];
const ID_BASE: u64 = 1000;
/// `Change.amount` value of a change that advances the update id but lists no level: a message
/// made of such changes only is a depth update with empty bid and ask lists
const NIL_CHANGE: u8 = 255;

#[derive(Debug, Clone, Copy, PartialEq, Eq, Serialize, Deserialize)]
pub struct Change {
    pub bid: bool,
    pub price: u8,
    pub amount: u8,
}

#[derive(Debug, Clone, Copy, PartialEq, Eq, Serialize, Deserialize)]
pub enum Perturb {
    None,
    Drop(u16),
    Duplicate(u16),
    SwapAdjacent(u16),
    /// after message `at`, replay the delivered messages from the start up to `at`
    ReplayPrefix(u16),
}

#[derive(Debug, Clone, PartialEq, Eq, Serialize, Deserialize)]
pub struct Venue {
    pub changes: Vec<Change>,
    /// sizes of consecutive message groups (cycled, each >= 1)
    pub groups: Vec<u8>,
    /// snapshot id selector
    pub snapshot_sel: u16,
    /// >= 0: start this many messages *before* the first needed one (older messages get delivered);
    /// < 0: start that many messages too late (gap)
    pub start_offset: i8,
    pub perturb: Perturb,
}

#[derive(Debug, Clone, Serialize, Deserialize)]
pub struct L2Case {
    pub futures: bool,
    pub venues: Vec<Venue>,
    /// delivery interleaving: which venue's next message goes next (selector)
    pub interleave: Vec<u8>,
    /// deliver a message for an unsubscribed symbol after this many deliveries
    pub unknown_symbol_after: Option<u8>,
    /// which symbols the instruments are (offset into the pool) and in which order the initial
    /// snapshots are handed to the transformer (selector into the permutations)
    #[serde(default)]
    pub names: u8,
    #[serde(default)]
    pub snapshot_order: u8,
    /// after the first session the connection is re-initialised (new REST snapshots, possibly
    /// lagging behind what the long-lived local books already hold) and every instrument's feed is
    /// delivered again from its new starting point: per-instrument snapshot selectors
    #[serde(default)]
    pub second_session: Option<Vec<u16>>,
}

type Book = (BTreeMap<Decimal, Decimal>, BTreeMap<Decimal, Decimal>);

#[derive(Debug, Clone)]
struct Msg {
    first: u64,
    last: u64,
    prev_last: u64,
    bids: Vec<(Decimal, Decimal)>,
    asks: Vec<(Decimal, Decimal)>,
}

struct Sim {
    /// book state after change id (index 0 = before any change)
    states: Vec<Book>,
    msgs: Vec<Msg>,
    snapshot_id: u64,
    delivered: Vec<usize>,
    clean: bool,
    stale_prefix: usize,
    snapshot_inside_message: bool,
}

fn price_of(p: u8) -> Decimal {
    Decimal::new(10_000 + (p % 12) as i64 * 25, 2)
}

const DEEP_LEVELS: i64 = 104;
fn deep_book(v: &Venue) -> bool {
    v.snapshot_sel & 3 == 3
}

fn simulate(v: &Venue, futures: bool) -> Sim {
    let mut states: Vec<Book> = vec![(BTreeMap::new(), BTreeMap::new())];
    if deep_book(v) {
        // a quarter of the venues start with a deep resting book (more levels per side than the 100 a
        // default REST depth snapshot carries), away from the grid the changes move on: every level
        // of it is part of the venue's book until a diff removes it
        for k in 0..DEEP_LEVELS {
            states[0].0.insert(Decimal::new(100 + k, 2), Decimal::new(5 + (k % 9) * 5, 1));
            states[0].1.insert(Decimal::new(20_000 + k, 2), Decimal::new(5 + (k % 7) * 5, 1));
        }
    }
    for c in &v.changes {
        let mut b = states.last().unwrap().clone();
        if c.amount == NIL_CHANGE {
            // the venue's update id advances without a visible level change
            states.push(b);
            continue;
        }
        let side = if c.bid { &mut b.0 } else { &mut b.1 };
        let amount = Decimal::new((c.amount % 6) as i64 * 5, 1);
        if amount.is_zero() {
            side.remove(&price_of(c.price));
        } else {
            side.insert(price_of(c.price), amount);
        }
        states.push(b);
    }
    let n = v.changes.len();
    // messages
    let mut msgs = Vec::new();
    let mut at = 0usize;
    let mut g = 0usize;
    let mut prev_last = ID_BASE;
    while at < n {
        let size = (v.groups.get(g % v.groups.len().max(1)).copied().unwrap_or(1).max(1) as usize).min(n - at);
        g += 1;
        let (lo, hi) = (at + 1, at + size);
        let mut bids: BTreeMap<Decimal, Decimal> = BTreeMap::new();
        let mut asks: BTreeMap<Decimal, Decimal> = BTreeMap::new();
        for id in lo..=hi {
            let c = &v.changes[id - 1];
            if c.amount == NIL_CHANGE {
                continue;
            }
            let p = price_of(c.price);
            let final_amount = if c.bid { states[hi].0.get(&p) } else { states[hi].1.get(&p) }.copied().unwrap_or(Decimal::ZERO);
            if c.bid { bids.insert(p, final_amount); } else { asks.insert(p, final_amount); }
        }
        msgs.push(Msg { first: ID_BASE + lo as u64, last: ID_BASE + hi as u64, prev_last, bids: bids.into_iter().collect(), asks: asks.into_iter().rev().collect() });
        prev_last = ID_BASE + hi as u64;
        at = hi;
    }
    // snapshot id: spot any id in [base, base+n]; futures inside a message range [base+1, base+n] (or base when no change)
    let s_rel = if n == 0 { 0 } else if futures { 1 + ((v.snapshot_sel as usize) * n >> 16) } else { (v.snapshot_sel as usize) * (n + 1) >> 16 };
    let snapshot_id = ID_BASE + s_rel as u64;
    // first needed message
    let needed = if futures {
        msgs.iter().position(|m| m.first <= snapshot_id && snapshot_id <= m.last)
    } else {
        msgs.iter().position(|m| m.first <= snapshot_id + 1 && snapshot_id + 1 <= m.last)
    };
    let snapshot_inside_message = needed.is_some_and(|i| if futures { msgs[i].last != snapshot_id } else { msgs[i].first != snapshot_id + 1 });
    let needed_idx = needed.unwrap_or(msgs.len());
    let start = if v.start_offset >= 0 { needed_idx.saturating_sub(v.start_offset as usize) } else { (needed_idx + (-(v.start_offset as i32)) as usize).min(msgs.len()) };
    let mut delivered: Vec<usize> = (start..msgs.len()).collect();
    let late = v.start_offset < 0 && start > needed_idx && start < msgs.len() + 1 && needed_idx < msgs.len();
    let stale_prefix = needed_idx.saturating_sub(start);
    let mut clean = !late;
    let len = delivered.len();
    let pick = |sel: u16| if len == 0 { 0 } else { (sel as usize) * len >> 16 };
    match v.perturb {
        Perturb::None => {}
        _ if len == 0 => {}
        Perturb::Drop(s) => {
            delivered.remove(pick(s));
            clean = false;
        }
        Perturb::Duplicate(s) => {
            let i = pick(s);
            delivered.insert(i, delivered[i]);
            clean = false;
        }
        Perturb::SwapAdjacent(s) => {
            if len >= 2 {
                let i = pick(s).min(len - 2);
                delivered.swap(i, i + 1);
                clean = false;
            }
        }
        Perturb::ReplayPrefix(s) => {
            let i = pick(s);
            let prefix: Vec<usize> = delivered[..=i].to_vec();
            let mut d = delivered[..=i].to_vec();
            d.extend(prefix);
            d.extend_from_slice(&delivered[i + 1..]);
            delivered = d;
            clean = false;
        }
    }
    Sim { states, msgs, snapshot_id, delivered, clean, stale_prefix, snapshot_inside_message }
}

fn levels_json(levels: &[(Decimal, Decimal)]) -> Vec<Value> {
    levels.iter().map(|(p, a)| json!([format!("{p:.8}"), format!("{a:.8}")])).collect()
}

fn msg_json(symbol: &str, m: &Msg, futures: bool, n: usize) -> String {
    let e = 1_700_000_000_000u64 + n as u64;
    if futures {
        json!({"e":"depthUpdate","E":e,"T":e - 1,"s":symbol,"U":m.first,"u":m.last,"pu":m.prev_last,"b":levels_json(&m.bids),"a":levels_json(&m.asks)}).to_string()
    } else {
        json!({"e":"depthUpdate","E":e,"s":symbol,"U":m.first,"u":m.last,"b":levels_json(&m.bids),"a":levels_json(&m.asks)}).to_string()
    }
}

fn snapshot_json(book: &Book, id: u64, futures: bool) -> String {
    let bids: Vec<(Decimal, Decimal)> = book.0.iter().map(|(p, a)| (*p, *a)).collect();
    let asks: Vec<(Decimal, Decimal)> = book.1.iter().rev().map(|(p, a)| (*p, *a)).collect();
    if futures {
        json!({"lastUpdateId": id, "E": 1_700_000_000_000u64, "T": 1_700_000_000_000u64, "bids": levels_json(&bids), "asks": levels_json(&asks)}).to_string()
    } else {
        json!({"lastUpdateId": id, "bids": levels_json(&bids), "asks": levels_json(&asks)}).to_string()
    }
}

enum Tx {
    Spot(BinanceSpotOrderBooksL2Transformer<u8>),
    Futures(BinanceFuturesUsdOrderBooksL2Transformer<u8>),
}

impl Tx {
    fn feed(&mut self, payload: &str) -> Result<Vec<Result<MarketEvent<u8, OrderBookEvent>, DataError>>, String> {
        match self {
            Tx::Spot(t) => serde_json::from_str(payload).map(|m| t.transform(m)).map_err(|e| e.to_string()),
            Tx::Futures(t) => serde_json::from_str(payload).map(|m| t.transform(m)).map_err(|e| e.to_string()),
        }
    }
}

fn book_matches(book: &OrderBook, venue: &Book) -> bool {
    let bids: Vec<(Decimal, Decimal)> = book.bids().levels().iter().map(|l| (l.price, l.amount)).collect();
    let asks: Vec<(Decimal, Decimal)> = book.asks().levels().iter().map(|l| (l.price, l.amount)).collect();
    let vb: Vec<(Decimal, Decimal)> = venue.0.iter().rev().map(|(p, a)| (*p, *a)).collect();
    let va: Vec<(Decimal, Decimal)> = venue.1.iter().map(|(p, a)| (*p, *a)).collect();
    bids == vb && asks == va
}

pub struct BinanceL2Stream;

fn venue() -> impl Strategy<Value = Venue> {
    (
        prop::collection::vec((any::<bool>(), 0u8..12, prop_oneof![4 => Just(0u8), 10 => 1u8..6, 3 => Just(NIL_CHANGE)]), 0..24),
        prop::collection::vec(1u8..5, 1..6),
        any::<u16>(),
        prop_oneof![5 => 0i8..4, 1 => -3i8..0],
        prop_oneof![
            4 => Just(Perturb::None),
            1 => any::<u16>().prop_map(Perturb::Drop),
            1 => any::<u16>().prop_map(Perturb::Duplicate),
            1 => any::<u16>().prop_map(Perturb::SwapAdjacent),
            1 => any::<u16>().prop_map(Perturb::ReplayPrefix),
        ],
    )
        .prop_map(|(ch, groups, snapshot_sel, start_offset, perturb)| Venue {
            changes: ch.into_iter().map(|(bid, price, amount)| Change { bid, price, amount }).collect(),
            groups,
            snapshot_sel,
            start_offset,
            perturb,
        })
}

impl Check for BinanceL2Stream {
    type Case = L2Case;
    const NAME: &'static str = "binance_l2_stream";

    fn normalise(mut case: L2Case) -> L2Case {
        case.venues.truncate(3);
        while case.venues.len() < 2 {
            case.venues.push(Venue { changes: vec![], groups: vec![1], snapshot_sel: 0, start_offset: 0, perturb: Perturb::None });
        }
        for v in &mut case.venues {
            v.changes.truncate(24);
            v.groups.truncate(6);
            if v.groups.is_empty() {
                v.groups.push(1);
            }
            v.start_offset = v.start_offset.clamp(-3, 3);
        }
        case
    }


    fn strategy(_tier: Tier) -> BoxedStrategy<L2Case> {
        (any::<bool>(), prop::collection::vec(venue(), 2..=3), prop::collection::vec(any::<u8>(), 0..80), prop::option::weighted(0.3, 0u8..20), (0u8..8, 0u8..6), prop::option::weighted(0.35, prop::collection::vec(any::<u16>(), 3)))
            .prop_map(|(futures, venues, interleave, unknown_symbol_after, (names, snapshot_order), second_session)| L2Case { futures, venues, interleave, unknown_symbol_after, names, snapshot_order, second_session })
            .boxed()
    }

    fn eval(case: &L2Case) -> CaseReport {
        let mut rep = CaseReport::new();
        macro_rules! bad {
            ($sig:expr, $($fmt:tt)+) => {{ rep.fail($sig, format!($($fmt)+)); return rep; }};
        }
        let futures = case.futures;
        let n = case.venues.len().min(3);
        let sims: Vec<Sim> = case.venues.iter().take(n).map(|v| simulate(v, futures)).collect();
        let base = |i: usize| BASES[(case.names as usize + i) % BASES.len()];
        let symbols: Vec<String> = (0..n).map(|i| format!("{}USDT", base(i).to_uppercase())).collect();
        let exchange = if futures { ExchangeId::BinanceFuturesUsd } else { ExchangeId::BinanceSpot };

        // ---- subscription side: mapper-generated ids; snapshots through the connector's own types ---
        let kind = if futures { MarketDataInstrumentKind::Perpetual } else { MarketDataInstrumentKind::Spot };
        let instruments: Vec<Keyed<u8, MarketDataInstrument>> = (0..n).map(|i| Keyed::new(i as u8, MarketDataInstrument::from((base(i), "usdt", kind.clone())))).collect();
        let mut local: Vec<OrderBook> = Vec::new();
        let mut snapshots: Vec<MarketEvent<u8, OrderBookEvent>> = Vec::new();
        for (i, s) in sims.iter().enumerate() {
            let rel = (s.snapshot_id - ID_BASE) as usize;
            let payload = snapshot_json(&s.states[rel], s.snapshot_id, futures);
            let snap: BinanceOrderBookL2Snapshot = match serde_json::from_str(&payload) {
                Ok(s) => s,
                Err(e) => bad!("snapshot-parse", "snapshot payload {payload} does not parse: {e}"),
            };
            let ev: MarketEvent<u8, OrderBookEvent> = MarketEvent::from((exchange, i as u8, snap));
            let mut book = OrderBook::default();
            book.update(ev.kind.clone());
            if book.sequence != s.snapshot_id || !book_matches(&book, &s.states[rel]) {
                bad!("snapshot-book", "book built from the REST snapshot differs from the venue at {}", s.snapshot_id);
            }
            local.push(book);
            snapshots.push(ev);
        }
        // the snapshots are matched to the subscriptions by instrument key: any order will do
        const PERMS: [[usize; 3]; 6] = [[0, 1, 2], [0, 2, 1], [1, 0, 2], [1, 2, 0], [2, 0, 1], [2, 1, 0]];
        let perm = PERMS[case.snapshot_order as usize % 6];
        let snapshots: Vec<MarketEvent<u8, OrderBookEvent>> = perm.iter().filter(|i| **i < n).map(|i| snapshots[*i].clone()).collect();
        let (ws_tx, _ws_rx) = tokio::sync::mpsc::unbounded_channel();
        let mut tx = if futures {
            let subs: Vec<Subscription<BinanceFuturesUsd, Keyed<u8, MarketDataInstrument>, OrderBooksL2>> = instruments.iter().map(|k| Subscription::new(BinanceFuturesUsd::default(), k.clone(), OrderBooksL2)).collect();
            let meta = WebSocketSubMapper::map(&subs);
            match futures::executor::block_on(BinanceFuturesUsdOrderBooksL2Transformer::init(meta.instrument_map, &snapshots, ws_tx)) {
                Ok(t) => Tx::Futures(t),
                Err(e) => bad!("init-failed", "transformer init failed: {e}"),
            }
        } else {
            let subs: Vec<Subscription<BinanceSpot, Keyed<u8, MarketDataInstrument>, OrderBooksL2>> = instruments.iter().map(|k| Subscription::new(BinanceSpot::default(), k.clone(), OrderBooksL2)).collect();
            let meta = WebSocketSubMapper::map(&subs);
            match futures::executor::block_on(BinanceSpotOrderBooksL2Transformer::init(meta.instrument_map, &snapshots, ws_tx)) {
                Ok(t) => Tx::Spot(t),
                Err(e) => bad!("init-failed", "transformer init failed: {e}"),
            }
        };

        // ---- delivery -----------------------------------------------------------------------------
        let mut cursor = vec![0usize; n];
        let mut last = sims.iter().map(|s| s.snapshot_id).collect::<Vec<u64>>();
        let mut processed = vec![0u32; n];
        let mut errored = vec![false; n];
        let mut admitted_before_error = vec![0u32; n];
        let mut all_outputs: Vec<Result<MarketEvent<u8, OrderBookEvent>, DataError>> = Vec::new();
        let total: usize = sims.iter().map(|s| s.delivered.len()).sum();
        let mut delivered_count = 0usize;
        let mut k = 0usize;
        let mut unknown_done = false;
        while delivered_count < total {
            if let Some(after) = case.unknown_symbol_after {
                if !unknown_done && delivered_count >= after as usize {
                    unknown_done = true;
                    let m = Msg { first: 1, last: 2, prev_last: 0, bids: vec![(price_of(1), Decimal::ONE)], asks: vec![] };
                    let before = local.clone();
                    let out = match tx.feed(&msg_json("PEPEUSDT", &m, futures, 9_999)) {
                        Ok(o) => o,
                        Err(e) => bad!("payload-parse", "{e}"),
                    };
                    match out.as_slice() {
                        [Err(e)] if !e.is_terminal() && matches!(e, DataError::Socket(_)) => {}
                        other => bad!("unsubscribed-symbol", "message for an unsubscribed symbol produced {other:?}, expected one unidentifiable-subscription error"),
                    }
                    if before != local {
                        bad!("unsubscribed-symbol-touched-book", "message for an unsubscribed symbol changed a book");
                    }
                    all_outputs.extend(out);
                }
            }
            // pick the next venue that still has messages
            let sel = case.interleave.get(k).copied().unwrap_or(k as u8) as usize;
            k += 1;
            let candidates: Vec<usize> = (0..n).filter(|i| cursor[*i] < sims[*i].delivered.len()).collect();
            let v = candidates[sel % candidates.len()];
            let s = &sims[v];
            let mi = s.delivered[cursor[v]];
            cursor[v] += 1;
            delivered_count += 1;
            let m = &s.msgs[mi];
            let payload = msg_json(&symbols[v], m, futures, delivered_count);
            let out = match tx.feed(&payload) {
                Ok(o) => o,
                Err(e) => bad!("payload-parse", "payload {payload} does not parse: {e}"),
            };
            // venue rule
            let stale = if futures { m.last < last[v] } else { m.last <= last[v] };
            let what = format!("instrument {v} message [U={},u={},pu={}] with local last id {} ({} processed, snapshot {})", m.first, m.last, m.prev_last, last[v], processed[v], s.snapshot_id);
            if stale {
                if !out.is_empty() {
                    bad!("stale-message-not-dropped", "{what}: a stale message produced {out:?}");
                }
                continue;
            }
            let valid = match (processed[v] == 0, futures) {
                (true, false) => m.first <= last[v] + 1 && last[v] + 1 <= m.last,
                (true, true) => m.first <= last[v] && last[v] <= m.last,
                (false, false) => m.first == last[v] + 1,
                (false, true) => m.prev_last == last[v],
            };
            match (valid, out.as_slice()) {
                (true, [Ok(ev)]) => {
                    if ev.instrument != v as u8 || ev.exchange != exchange {
                        bad!("wrong-instrument", "{what}: update attributed to instrument {} on {}", ev.instrument, ev.exchange);
                    }
                    let OrderBookEvent::Update(u) = &ev.kind else { bad!("not-an-update", "{what}: output is not an update") };
                    if u.sequence != m.last {
                        bad!("update-sequence", "{what}: update carries sequence {}", u.sequence);
                    }
                    local[v].update(ev.kind.clone());
                    last[v] = m.last;
                    processed[v] += 1;
                    if !errored[v] {
                        admitted_before_error[v] += 1;
                        let rel = (local[v].sequence - ID_BASE) as usize;
                        if local[v].sequence != m.last || !book_matches(&local[v], &s.states[rel]) {
                            bad!("silently-wrong-book", "{what}: no error was emitted, the local book reports sequence {} but differs from the venue's book at that id: local bids {:?} asks {:?}, venue {:?}", local[v].sequence, local[v].bids().levels(), local[v].asks().levels(), s.states[rel]);
                        }
                    }
                }
                (false, [Err(e)]) => {
                    if !matches!(e, DataError::InvalidSequence { .. }) || !e.is_terminal() {
                        bad!("break-not-terminal", "{what}: chain break surfaced as {e:?} (terminal = {})", e.is_terminal());
                    }
                    errored[v] = true;
                }
                (true, other) => bad!("valid-update-rejected", "{what}: the message continues the chain under the venue's rule but produced {other:?}"),
                (false, other) => bad!("chain-break-admitted", "{what}: the message breaks the chain under the venue's rule but produced {other:?}"),
            }
            all_outputs.extend(out);
        }

        // ---- clean deliveries never error and end at the venue's last state ---------------------------
        for (v, s) in sims.iter().enumerate() {
            if s.clean {
                if errored[v] {
                    bad!("clean-delivery-errored", "instrument {v}: gap-free in-order delivery (preceded by {} older messages) raised a sequence error", s.stale_prefix);
                }
                let final_id = s.delivered.last().map(|i| s.msgs[*i].last).filter(|u| *u > s.snapshot_id).unwrap_or(s.snapshot_id);
                let rel = (final_id - ID_BASE) as usize;
                if local[v].sequence != final_id || !book_matches(&local[v], &s.states[rel]) {
                    bad!("clean-delivery-wrong-book", "instrument {v}: after a clean delivery the local book (sequence {}) differs from the venue at {final_id}", local[v].sequence);
                }
            }
        }

        // ---- re-initialisation: a second session over the same long-lived books -----------------------
        let mut second_session_lagging = false;
        if let Some(sels) = &case.second_session {
            let mut snapshots2: Vec<MarketEvent<u8, OrderBookEvent>> = Vec::new();
            let mut s2: Vec<u64> = Vec::new();
            for (v, s) in sims.iter().enumerate() {
                let changes = s.states.len() - 1;
                let sel = sels.get(v).copied().unwrap_or(0) as usize;
                let rel = if changes == 0 { 0 } else if futures { 1 + (sel * changes >> 16) } else { sel * (changes + 1) >> 16 };
                let id = ID_BASE + rel as u64;
                if id < local[v].sequence {
                    second_session_lagging = true;
                }
                let snap: BinanceOrderBookL2Snapshot = match serde_json::from_str(&snapshot_json(&s.states[rel], id, futures)) {
                    Ok(x) => x,
                    Err(e) => bad!("snapshot-parse", "snapshot payload does not parse: {e}"),
                };
                let ev: MarketEvent<u8, OrderBookEvent> = MarketEvent::from((exchange, v as u8, snap));
                // the consumer applies the new snapshot to the book it has kept since the first session
                let held = local[v].sequence;
                local[v].update(ev.kind.clone());
                if local[v].sequence != id || !book_matches(&local[v], &s.states[rel]) {
                    bad!("resync-snapshot-not-applied", "instrument {v}: after re-initialisation the local book (held sequence {held}) was given the new snapshot at {id}; it now reports sequence {} and {} the venue's book at {id}", local[v].sequence, if book_matches(&local[v], &s.states[rel]) { "matches" } else { "differs from" });
                }
                snapshots2.push(ev);
                s2.push(id);
            }
            let (ws_tx2, _ws_rx2) = tokio::sync::mpsc::unbounded_channel();
            let mut tx2 = if futures {
                let subs: Vec<Subscription<BinanceFuturesUsd, Keyed<u8, MarketDataInstrument>, OrderBooksL2>> = instruments.iter().map(|k| Subscription::new(BinanceFuturesUsd::default(), k.clone(), OrderBooksL2)).collect();
                match futures::executor::block_on(BinanceFuturesUsdOrderBooksL2Transformer::init(WebSocketSubMapper::map(&subs).instrument_map, &snapshots2, ws_tx2)) {
                    Ok(t) => Tx::Futures(t),
                    Err(e) => bad!("init-failed", "second transformer init failed: {e}"),
                }
            } else {
                let subs: Vec<Subscription<BinanceSpot, Keyed<u8, MarketDataInstrument>, OrderBooksL2>> = instruments.iter().map(|k| Subscription::new(BinanceSpot::default(), k.clone(), OrderBooksL2)).collect();
                match futures::executor::block_on(BinanceSpotOrderBooksL2Transformer::init(WebSocketSubMapper::map(&subs).instrument_map, &snapshots2, ws_tx2)) {
                    Ok(t) => Tx::Spot(t),
                    Err(e) => bad!("init-failed", "second transformer init failed: {e}"),
                }
            };
            // gap-free delivery of every message from one before the first needed one (instrument
            // by instrument): no error, and the book equals the venue after every admitted message
            for (v, s) in sims.iter().enumerate() {
                let needed = if futures { s.msgs.iter().position(|m| m.first <= s2[v] && s2[v] <= m.last) } else { s.msgs.iter().position(|m| m.first <= s2[v] + 1 && s2[v] + 1 <= m.last) };
                let Some(needed) = needed else { continue };
                for (j, m) in s.msgs.iter().enumerate().skip(needed.saturating_sub(1)) {
                    let out = match tx2.feed(&msg_json(&symbols[v], m, futures, 20_000 + j)) {
                        Ok(o) => o,
                        Err(e) => bad!("payload-parse", "{e}"),
                    };
                    match out.as_slice() {
                        [] if j < needed => {}
                        [Ok(ev)] if j >= needed => {
                            local[v].update(ev.kind.clone());
                            let rel = (m.last - ID_BASE) as usize;
                            if local[v].sequence != m.last || !book_matches(&local[v], &s.states[rel]) {
                                bad!("second-session-wrong-book", "instrument {v}, second session (snapshot {}): after message [U={},u={}] the local book reports sequence {} but differs from the venue's book at {}", s2[v], m.first, m.last, local[v].sequence, m.last);
                            }
                        }
                        other => bad!("second-session-delivery", "instrument {v}, second session (snapshot {}): gap-free message [U={},u={},pu={}] (index {j}, first needed {needed}) produced {other:?}", s2[v], m.first, m.last, m.prev_last),
                    }
                }
            }
        }

        // ---- the connection stream ends at the first terminal error ------------------------------------
        let first_terminal = all_outputs.iter().position(|o| matches!(o, Err(e) if e.is_terminal()));
        let key = StreamKey::new("verif", exchange, None);
        let connection = futures::stream::once(std::future::ready(futures::stream::iter(all_outputs.clone())));
        let through: Vec<Result<MarketEvent<u8, OrderBookEvent>, DataError>> =
            futures::executor::block_on(connection.with_termination_on_error(|e: &DataError| e.is_terminal(), key).flatten().collect());
        let want: Vec<_> = match first_terminal {
            Some(i) => all_outputs[..i].to_vec(),
            None => all_outputs.clone(),
        };
        if through != want {
            bad!("connection-not-terminated", "with_termination_on_error delivered {} items, expected the {} before the first terminal error", through.len(), want.len());
        }

        let perturbed_after_progress = (0..n).any(|v| !sims[v].clean && admitted_before_error[v] >= 1 && errored[v]);
        let clean_with_stale_inside = (0..n).any(|v| sims[v].clean && sims[v].stale_prefix >= 1 && sims[v].snapshot_inside_message && processed[v] >= 1);
        rep.class(if futures { "futures_rule_set" } else { "spot_rule_set" });
        rep.class_if(errored.iter().any(|e| *e), "sequence_error_raised");
        rep.class_if(case.second_session.is_some(), "re_initialised_second_session");
        rep.class_if(case.venues.iter().any(|v| deep_book(v) && !v.changes.is_empty()), "deep_resting_book_over_100_levels_a_side");
        rep.class_if(second_session_lagging, "second_session_snapshot_behind_local_book");
        rep.class_if(sims.iter().any(|s| s.msgs.iter().any(|m| m.bids.is_empty() && m.asks.is_empty())), "depth_update_with_empty_level_lists");
        rep.class_if(perturbed_after_progress, "perturbed_after_admitted_message");
        rep.class_if(clean_with_stale_inside, "clean_with_stale_prefix_and_snapshot_inside_message");
        rep.class_if(sims.iter().any(|s| !s.clean), "has_perturbed_instrument");
        rep.class_if(sims.iter().any(|s| s.clean && !s.delivered.is_empty()), "has_clean_instrument");
        rep.class_if(unknown_done, "unsubscribed_symbol_message");
        rep.nontrivial = perturbed_after_progress || clean_with_stale_inside;
        rep
    }
}

pub fn run(ctx: &mut Ctx) {
    ctx.rule = "binance_l2_stream: spot or USD-futures rule set; 2..3 instruments on one connection (symbols from a pool of 8, initial snapshots handed over in a generated order), each a simulated venue (a quarter of them start with a deep resting book of 104 levels a side away from the grid) of 0..23 atomic changes (12-price grid, 25% deletes, 18% id-only changes so that depth updates with empty level lists occur) grouped into messages of 1..4 changes with absolute amounts; snapshot at any id (inside or at the edge of a message); delivery starts 0..3 messages early (older messages included) or 1..3 late, and is perturbed by drop / duplicate / adjacent swap / replay of an old prefix (half of the venues) or left clean; instruments interleaved; optional message for an unsubscribed symbol; in 35% of the cases the connection is then re-initialised: new snapshots at generated ids (often behind what the long-lived local books hold) are applied to the same books and every feed is delivered again gap-free from its new starting point. non-trivial = a perturbed instrument with >= 1 message admitted before the break, or a clean instrument with >= 1 stale prefix message and the snapshot strictly inside a message; distinct by hash of the case.".into();
    ctx.assumptions = vec![
        "venue behaviour as published: consecutive update ids, diff messages carry absolute quantities, futures messages carry pu = previous message's u; futures snapshots lie inside a message's id range".into(),
        "payloads are synthesised in the venue's documented JSON shape and parsed by the connector's own Deserialize impls".into(),
    ];
    ctx.run_regressions::<BinanceL2Stream>();
    ctx.run::<BinanceL2Stream>(ctx.tier.pick(60_000, 1_000_000));
}

pub fn replay(ctx: &mut Ctx, doc: &Value) -> bool {
    ctx.replay::<BinanceL2Stream>(doc)
}
