//! C07 — Every execution request is answered exactly once (response or timeout).
//!
//! Check `manager_exactly_once`: `ExecutionManager::run` around a scripted `ExecutionClient` on a
//! paused current-thread tokio runtime (the harness owns the clock). Per request the client answers
//! ok / err after a generated delay, or never. Oracle: exactly one account event per request — the
//! client's response iff delay < timeout, else the timeout failure — at virtual instant
//! send + min(delay, timeout), keyed with the original indices; nothing else ever arrives; the
//! client saw the request addressed to the instrument's exchange name (C04 end-to-end).

use crate::framework::{CaseReport, Check, Ctx, Tier};
use crate::props::gens::{ts, T0_MS};
use crate::props::world::{self, InstrumentDef, simple_world};
use barter::execution::{AccountStreamEvent, manager::ExecutionManager, request::ExecutionRequest};
use barter_execution::{
    AccountEventKind, UnindexedAccountEvent, UnindexedAccountSnapshot,
    balance::AssetBalance,
    client::ExecutionClient,
    error::{ApiError, ConnectivityError, OrderError, UnindexedClientError, UnindexedOrderError},
    indexer::AccountEventIndexer,
    map::generate_execution_instrument_map,
    order::{
        Order, OrderKey, OrderKind, TimeInForce,
        id::{ClientOrderId, OrderId, StrategyId},
        request::{OrderRequestCancel, OrderRequestOpen, RequestCancel, RequestOpen, UnindexedOrderResponseCancel},
        state::{ActiveOrderState, Cancelled, InactiveOrderState, Open, OrderState},
    },
    trade::Trade,
};
use barter_instrument::{
    Side,
    asset::{QuoteAsset, name::AssetNameExchange},
    exchange::{ExchangeId, ExchangeIndex},
    instrument::{InstrumentIndex, name::InstrumentNameExchange},
};
use barter_integration::channel::{Tx, mpsc_unbounded};
use chrono::{DateTime, Utc};
use futures::StreamExt;
use proptest::prelude::*;
use rust_decimal::Decimal;
use serde::{Deserialize, Serialize};
use serde_json::Value;
use std::{
    collections::HashMap,
    sync::{Arc, Mutex},
    time::Duration,
};

#[derive(Debug, Clone, Copy, PartialEq, Eq, Serialize, Deserialize)]
pub enum Resp {
    /// open: Ok(Open{filled}); cancel: Ok(Cancelled)
    Ok { filled: u8 },
    /// open/cancel: rejected with an error naming an asset of the exchange
    ErrAsset,
    /// connectivity error
    ErrConn,
    /// rejected as rate limited; an open request with this script is throttled persistently (the
    /// client gives the same answer however often that order is submitted)
    ErrRateLimit,
}

#[derive(Debug, Clone, Copy, PartialEq, Eq, Serialize, Deserialize)]
pub struct ReqScript {
    pub open: bool,
    pub inst_sel: u8,
    /// send offset in ms
    pub send_ms: u32,
    /// client delay in ms; None = never answers
    pub delay_ms: Option<u32>,
    pub resp: Resp,
    /// cancel only: re-use the client order id of an earlier cancel request (selector), i.e. cancel
    /// the same order again after the earlier cancel was answered or timed out
    #[serde(default)]
    pub retry_of: Option<u8>,
    /// use the client order id "shared" (ids are unique per instrument only): taken when no earlier
    /// request of the same kind for the same instrument already uses it
    #[serde(default)]
    pub shared_cid: bool,
    /// the client order id is a long one (54 characters, '<strategy>-<uuid>-<leg>' style); all long
    /// ids of a case agree on their first 40 characters
    #[serde(default)]
    pub long_cid: bool,
}

#[derive(Debug, Clone, Serialize, Deserialize)]
pub struct ManagerCase {
    pub defs: Vec<InstrumentDef>,
    /// which exchange (selector) the manager serves
    pub exchange_sel: u8,
    pub timeout_ms: u32,
    pub requests: Vec<ReqScript>,
}

pub const QTY: u32 = 4;

// -------------------------------------------------------------------------------------------
// Scripted client
// -------------------------------------------------------------------------------------------

#[derive(Debug, Clone)]
pub struct Behaviour {
    pub delay_ms: Option<u32>,
    pub resp: Resp,
    pub asset_name: AssetNameExchange,
}

#[derive(Debug, Clone, PartialEq, Eq)]
pub struct Received {
    pub open: bool,
    pub exchange: ExchangeId,
    pub instrument: InstrumentNameExchange,
    pub cid: ClientOrderId,
}

#[derive(Debug, Clone, Default)]
pub struct ScriptClientConfig {
    /// keyed by (is_open, instrument name, cid): one behaviour per request with that key, in send order
    pub behaviours: Arc<Mutex<HashMap<(bool, String, String), std::collections::VecDeque<Behaviour>>>>,
    pub received: Arc<Mutex<Vec<Received>>>,
}

#[derive(Debug, Clone)]
pub struct ScriptClient(pub ScriptClientConfig);

impl ScriptClient {
    fn behaviour(&self, open: bool, instrument: &InstrumentNameExchange, cid: &ClientOrderId) -> Behaviour {
        let mut all = self.0.behaviours.lock().unwrap();
        let queue = all.get_mut(&(open, instrument.to_string(), cid.0.to_string()));
        match queue {
            // a persistently throttled order: the same answer for every submission
            Some(q) if open && q.front().is_some_and(|b| b.resp == Resp::ErrRateLimit) => q.front().cloned().expect("front"),
            Some(q) if !q.is_empty() => q.pop_front().expect("front"),
            // a request nobody scripted (the oracle reports it from `received`): answered at once
            _ => Behaviour { delay_ms: Some(0), resp: Resp::Ok { filled: 0 }, asset_name: AssetNameExchange::new("unscripted") },
        }
    }
}

impl ExecutionClient for ScriptClient {
    const EXCHANGE: ExchangeId = ExchangeId::Mock;
    type Config = ScriptClientConfig;
    type AccountStream = futures::stream::Pending<UnindexedAccountEvent>;

    fn new(config: Self::Config) -> Self {
        Self(config)
    }

    async fn account_snapshot(&self, _: &[AssetNameExchange], _: &[InstrumentNameExchange]) -> Result<UnindexedAccountSnapshot, UnindexedClientError> {
        Err(UnindexedClientError::AccountSnapshot("not scripted".into()))
    }

    async fn account_stream(&self, _: &[AssetNameExchange], _: &[InstrumentNameExchange]) -> Result<Self::AccountStream, UnindexedClientError> {
        Ok(futures::stream::pending())
    }

    fn cancel_order(&self, request: OrderRequestCancel<ExchangeId, &InstrumentNameExchange>) -> impl Future<Output = UnindexedOrderResponseCancel> + Send {
        let b = self.behaviour(false, request.key.instrument, &request.key.cid);
        self.0.received.lock().unwrap().push(Received { open: false, exchange: request.key.exchange, instrument: request.key.instrument.clone(), cid: request.key.cid.clone() });
        let key = OrderKey { exchange: request.key.exchange, instrument: request.key.instrument.clone(), strategy: request.key.strategy.clone(), cid: request.key.cid.clone() };
        async move {
            match b.delay_ms {
                None => std::future::pending::<()>().await,
                Some(d) => tokio::time::sleep(Duration::from_millis(d as u64)).await,
            }
            let state = match b.resp {
                Resp::Ok { .. } => Ok(Cancelled { id: OrderId::new(format!("oid-{}", key.cid)), time_exchange: ts(T0_MS) }),
                Resp::ErrAsset => Err(UnindexedOrderError::Rejected(ApiError::AssetInvalid(b.asset_name.clone(), "scripted".into()))),
                Resp::ErrConn => Err(OrderError::Connectivity(ConnectivityError::Socket("scripted".into()))),
                Resp::ErrRateLimit => Err(UnindexedOrderError::Rejected(ApiError::RateLimit)),
            };
            UnindexedOrderResponseCancel { key, state }
        }
    }

    fn open_order(&self, request: OrderRequestOpen<ExchangeId, &InstrumentNameExchange>) -> impl Future<Output = Order<ExchangeId, InstrumentNameExchange, Result<Open, UnindexedOrderError>>> + Send {
        let b = self.behaviour(true, request.key.instrument, &request.key.cid);
        self.0.received.lock().unwrap().push(Received { open: true, exchange: request.key.exchange, instrument: request.key.instrument.clone(), cid: request.key.cid.clone() });
        let key = OrderKey { exchange: request.key.exchange, instrument: request.key.instrument.clone(), strategy: request.key.strategy.clone(), cid: request.key.cid.clone() };
        let st = request.state.clone();
        async move {
            match b.delay_ms {
                None => std::future::pending::<()>().await,
                Some(d) => tokio::time::sleep(Duration::from_millis(d as u64)).await,
            }
            let state = match b.resp {
                Resp::Ok { filled } => Ok(Open { id: OrderId::new(format!("oid-{}", key.cid)), time_exchange: ts(T0_MS), filled_quantity: Decimal::from((filled as u32).min(QTY)) }),
                Resp::ErrAsset => Err(UnindexedOrderError::Rejected(ApiError::BalanceInsufficient(b.asset_name.clone(), "scripted".into()))),
                Resp::ErrConn => Err(OrderError::Connectivity(ConnectivityError::Socket("scripted".into()))),
                Resp::ErrRateLimit => Err(UnindexedOrderError::Rejected(ApiError::RateLimit)),
            };
            Order { key, side: st.side, price: st.price, quantity: st.quantity, kind: st.kind, time_in_force: st.time_in_force, state }
        }
    }

    async fn fetch_balances(&self) -> Result<Vec<AssetBalance<AssetNameExchange>>, UnindexedClientError> {
        Ok(vec![])
    }
    async fn fetch_open_orders(&self) -> Result<Vec<Order<ExchangeId, InstrumentNameExchange, Open>>, UnindexedClientError> {
        Ok(vec![])
    }
    async fn fetch_trades(&self, _: DateTime<Utc>) -> Result<Vec<Trade<QuoteAsset, InstrumentNameExchange>>, UnindexedClientError> {
        Ok(vec![])
    }
}

// -------------------------------------------------------------------------------------------
// The check
// -------------------------------------------------------------------------------------------

pub struct ManagerExactlyOnce;

fn req_script() -> impl Strategy<Value = (bool, u8, u32, Option<u32>, Resp, Option<u8>, bool, bool)> {
    (
        prop::bool::weighted(0.65),
        any::<u8>(),
        0u32..3000,                    // send offset in per-mille of 3T
        prop::option::weighted(0.85, 0u32..2000), // delay in per-mille of 2T
        prop_oneof![
            5 => (0u8..=4).prop_map(|filled| Resp::Ok { filled }),
            2 => Just(Resp::ErrAsset),
            1 => Just(Resp::ErrConn),
            1 => Just(Resp::ErrRateLimit),
        ],
        prop::option::weighted(0.4, any::<u8>()),
        prop::bool::weighted(0.3),
        prop::bool::weighted(0.15),
    )
}

impl Check for ManagerExactlyOnce {
    type Case = ManagerCase;
    const NAME: &'static str = "manager_exactly_once";

    fn normalise(mut case: ManagerCase) -> ManagerCase {
        case.defs = crate::props::world::normalise_defs(case.defs, true);
        if case.defs.len() < 2 {
            case.defs = vec![
                InstrumentDef { exchange: 0, base: 0, quote: 2, kind: crate::props::world::KindDef::Spot, unit: crate::props::world::UnitDef::NoSpec },
                InstrumentDef { exchange: 1, base: 1, quote: 2, kind: crate::props::world::KindDef::Spot, unit: crate::props::world::UnitDef::NoSpec },
            ];
        }
        case.timeout_ms = 10 + case.timeout_ms % 4991;
        case.requests.truncate(96);
        let t = case.timeout_ms;
        for r in &mut case.requests {
            r.send_ms %= 3 * t;
            r.delay_ms = r.delay_ms.map(|d| {
                let d = d % (2 * t);
                if d == t { d + 1 } else { d }
            });
            if let Resp::Ok { filled } = &mut r.resp {
                *filled %= 5;
            }
        }
        if case.requests.is_empty() {
            case.requests.push(ReqScript { open: true, inst_sel: 0, send_ms: 0, delay_ms: Some(1), resp: Resp::Ok { filled: 0 }, retry_of: None, shared_cid: false, long_cid: false });
        }
        case
    }

    fn strategy(tier: Tier) -> BoxedStrategy<ManagerCase> {
        let max = match tier {
            Tier::Quick => 16usize,
            Tier::Thorough => 32usize,
        };
        (simple_world(2..=3, 0..3), any::<u8>(), 10u32..=5000, prop::collection::vec(req_script(), 1..=max), prop_oneof![19 => Just(0usize), 1 => 33usize..70])
            .prop_map(|(defs, exchange_sel, timeout_ms, reqs, burst)| {
                let t = timeout_ms as u64;
                let mut requests: Vec<ReqScript> = reqs
                    .into_iter()
                    .map(|(open, inst_sel, send_pm, delay_pm, resp, retry_of, shared_cid, long_cid)| {
                        let send_ms = (send_pm as u64 * 3 * t / 3000) as u32;
                        let delay_ms = delay_pm.map(|pm| {
                            let mut d = (pm as u64 * 2 * t / 2000) as u32;
                            // |d - T| >= 1 ms: at exact equality either outcome is legal
                            if d == timeout_ms {
                                d += 1;
                            }
                            d
                        });
                        ReqScript { open, inst_sel, send_ms, delay_ms, resp, retry_of, shared_cid, long_cid }
                    })
                    .collect();
                // now and then a burst: dozens of requests outstanding at once (most never answered)
                for k in 0..burst {
                    requests.push(ReqScript { open: k % 4 != 3, inst_sel: k as u8, send_ms: (k % 3) as u32, delay_ms: if k % 5 == 0 { Some(1 + k as u32 % 7) } else { None }, resp: Resp::Ok { filled: 0 }, retry_of: None, shared_cid: false, long_cid: false });
                }
                ManagerCase { defs, exchange_sel, timeout_ms, requests }
            })
            .boxed()
    }

    fn eval(case: &ManagerCase) -> CaseReport {
        let mut rep = CaseReport::new();
        macro_rules! bad {
            ($sig:expr, $($fmt:tt)+) => {{ rep.fail($sig, format!($($fmt)+)); return rep; }};
        }
        let indexed = world::index(&case.defs);
        let ex = &indexed.exchanges()[case.exchange_sel as usize % indexed.exchanges().len()];
        let (ex_idx, ex_id) = (ex.key, ex.value);
        let map = match generate_execution_instrument_map(&indexed, ex_id) {
            Ok(m) => m,
            Err(e) => bad!("map-generation-failed", "{e}"),
        };
        let indexer = AccountEventIndexer::new(Arc::new(map));
        let own: Vec<_> = indexed.instruments().iter().filter(|i| i.value.exchange.key == ex_idx).collect();
        let timeout = case.timeout_ms.max(1);

        // resolve requests
        struct R {
            open: bool,
            inst: InstrumentIndex,
            name: InstrumentNameExchange,
            cid: ClientOrderId,
            send_ms: u64,
            delay_ms: Option<u64>,
            resp: Resp,
            quote_asset: barter_instrument::asset::AssetIndex,
            /// how many earlier requests carry the same (kind, client order id)
            nth: usize,
        }
        let mut reqs: Vec<R> = Vec::new();
        let config = ScriptClientConfig::default();
        for (n, r) in case.requests.iter().enumerate() {
            let mut ins = own[r.inst_sel as usize % own.len()];
            let mut cid = ClientOrderId::new(if r.long_cid { format!("strategy-alpha-6f1c2a9e-77b3-4d0e-9a41-leg-{n:04}-c{n}") } else { format!("c{n}") });
            if r.shared_cid && !reqs.iter().any(|q| q.open == r.open && q.inst == ins.key && q.cid.0 == "shared") {
                cid = ClientOrderId::new("shared");
            }
            let mut delay = r.delay_ms.map(|d| d as u64);
            if delay == Some(timeout as u64) {
                delay = Some(timeout as u64 + 1);
            }
            let mut send_ms = r.send_ms as u64;
            let mut nth = 0;
            // a repeated cancel: same order (id, instrument), sent once the previous cancel for it
            // has been answered or has timed out
            let earlier_cancels: Vec<usize> = (0..reqs.len()).filter(|i| !reqs[*i].open).collect();
            if let (false, Some(sel), false) = (r.open, r.retry_of, earlier_cancels.is_empty()) {
                let first = &reqs[earlier_cancels[(sel as usize * earlier_cancels.len()) >> 8]];
                cid = first.cid.clone();
                ins = own.iter().copied().find(|i| i.key == first.inst).expect("own instrument");
                let chain: Vec<&R> = reqs.iter().filter(|q| !q.open && q.cid == cid && q.inst == ins.key).collect();
                nth = chain.len();
                let last = chain[nth - 1];
                let resolved = last.send_ms + last.delay_ms.map_or(timeout as u64, |d| d.min(timeout as u64));
                send_ms = send_ms.max(resolved + 1);
            }
            let asset_name = indexed.assets()[ins.value.underlying.quote.index()].value.asset.name_exchange.clone();
            config.behaviours.lock().unwrap().entry((r.open, ins.value.name_exchange.to_string(), cid.0.to_string())).or_default().push_back(Behaviour { delay_ms: delay.map(|d| d as u32), resp: r.resp, asset_name });
            reqs.push(R { open: r.open, inst: ins.key, name: ins.value.name_exchange.clone(), cid, send_ms, delay_ms: delay, resp: r.resp, quote_asset: ins.value.underlying.quote, nth });
        }
        let mut order: Vec<usize> = (0..reqs.len()).collect();
        order.sort_by_key(|i| (reqs[*i].send_ms, *i));

        let key_of = |r: &R| OrderKey { exchange: ex_idx, instrument: r.inst, strategy: StrategyId::new("strat"), cid: r.cid.clone() };
        let to_request = |r: &R| -> ExecutionRequest {
            if r.open {
                ExecutionRequest::Open(OrderRequestOpen {
                    key: key_of(r),
                    state: RequestOpen { side: Side::Buy, price: Decimal::from(10), quantity: Decimal::from(QTY), kind: OrderKind::Limit, time_in_force: TimeInForce::GoodUntilCancelled { post_only: false } },
                })
            } else {
                ExecutionRequest::Cancel(OrderRequestCancel { key: key_of(r), state: RequestCancel { id: None } })
            }
        };

        let horizon_ms: u64 = reqs.iter().map(|r| r.send_ms + timeout as u64).max().unwrap_or(0) + 5;

        let rt = tokio::runtime::Builder::new_current_thread().enable_time().start_paused(true).build().expect("runtime");
        let client = ScriptClient::new(config.clone());
        let outcome: Result<(Vec<(u64, AccountStreamEvent)>, Vec<(u64, AccountStreamEvent)>, bool), String> = rt.block_on(async {
            let (req_tx, req_rx) = mpsc_unbounded::<ExecutionRequest>();
            let (resp_tx, mut resp_rx) = mpsc_unbounded::<AccountStreamEvent>();
            let manager = ExecutionManager::new(req_rx.into_stream(), Duration::from_millis(timeout as u64), resp_tx, Arc::new(client), indexer.clone());
            let handle = tokio::spawn(manager.run());
            let start = tokio::time::Instant::now();
            let collected: Arc<Mutex<Vec<(u64, AccountStreamEvent)>>> = Arc::new(Mutex::new(Vec::new()));
            let sink = collected.clone();
            let collector = tokio::spawn(async move {
                while let Some(ev) = resp_rx.rx.recv().await {
                    let at = start.elapsed().as_millis() as u64;
                    sink.lock().unwrap().push((at, ev));
                }
            });
            for i in &order {
                tokio::time::sleep_until(start + Duration::from_millis(reqs[*i].send_ms)).await;
                if req_tx.send(to_request(&reqs[*i])).is_err() {
                    return Err("execution manager stopped accepting requests".to_string());
                }
            }
            tokio::time::sleep_until(start + Duration::from_millis(horizon_ms)).await;
            let first: Vec<_> = collected.lock().unwrap().drain(..).collect();
            // nothing further arrives later
            tokio::time::sleep(Duration::from_millis(3 * timeout as u64 + 10)).await;
            let late: Vec<_> = collected.lock().unwrap().drain(..).collect();
            // shutdown ends the task
            let _ = req_tx.send(ExecutionRequest::Shutdown);
            let ended = tokio::time::timeout(Duration::from_secs(3600), handle).await.is_ok();
            collector.abort();
            Ok((first, late, ended))
        });
        let (first, late, ended) = match outcome {
            Ok(x) => x,
            Err(e) => bad!("manager-stopped", "{e}"),
        };
        if !late.is_empty() {
            bad!("late-event", "events arrived after every request was due: {late:?}");
        }
        if !ended {
            bad!("no-shutdown", "manager task did not end after Shutdown");
        }

        // the client saw every request once, addressed to the instrument's exchange name
        let received = config.received.lock().unwrap().clone();
        for r in &reqs {
            let hits: Vec<_> = received.iter().filter(|x| x.open == r.open && x.cid == r.cid && x.instrument == r.name).collect();
            let sent = reqs.iter().filter(|q| q.open == r.open && q.cid == r.cid && q.inst == r.inst).count();
            if hits.len() != sent {
                bad!("client-delivery", "client received request {}/{} {} times, it was sent {sent} time(s)", if r.open { "open" } else { "cancel" }, r.cid, hits.len());
            }
            if hits[r.nth].exchange != ex_id || hits[r.nth].instrument != r.name {
                bad!("client-address", "request for {} ({}) reached the client addressed to ({}, {}), expected ({ex_id}, {})", r.inst, r.cid, hits[r.nth].exchange, hits[r.nth].instrument, r.name);
            }
        }
        if received.len() != reqs.len() {
            bad!("client-delivery", "client received {} requests, {} were sent", received.len(), reqs.len());
        }

        // exactly one event per request, of the right kind, at the right virtual instant
        let mut timeouts = 0;
        let mut responses = 0;
        let mut out_of_send_order = false;
        let mut expected_instants: Vec<(u64, usize)> = Vec::new();
        for (i, r) in reqs.iter().enumerate() {
            let mine: Vec<&(u64, AccountStreamEvent)> = first
                .iter()
                .filter(|(_, ev)| match ev {
                    AccountStreamEvent::Item(e) => match &e.kind {
                        AccountEventKind::OrderSnapshot(s) => r.open && s.0.key.cid == r.cid && s.0.key.instrument == r.inst,
                        AccountEventKind::OrderCancelled(c) => !r.open && c.key.cid == r.cid && c.key.instrument == r.inst,
                        _ => false,
                    },
                    _ => false,
                })
                .collect();
            let sent = reqs.iter().filter(|q| q.open == r.open && q.cid == r.cid && q.inst == r.inst).count();
            let what = format!("{} {} (request {} of {sent} with that id, send {} ms, delay {:?} ms, timeout {} ms, {:?})", if r.open { "open" } else { "cancel" }, r.cid, r.nth + 1, r.send_ms, r.delay_ms, timeout, r.resp);
            if mine.len() <= r.nth {
                bad!("request-unanswered", "no account event for {what}: {} event(s) carry that id", mine.len());
            }
            if mine.len() > sent {
                bad!("request-answered-twice", "{} account events for {sent} request(s) {what}: {mine:?}", mine.len());
            }
            // requests with one id are sent one after the other's resolution: the n-th event is
            // the n-th request's
            let (at, ev) = mine[r.nth];
            let responded = r.delay_ms.is_some_and(|d| d < timeout as u64);
            let due = r.send_ms + r.delay_ms.map_or(timeout as u64, |d| d.min(timeout as u64));
            expected_instants.push((due, i));
            if responded { responses += 1 } else { timeouts += 1 }
            if at.abs_diff(due) > 1 {
                bad!("wrong-instant", "{what}: event arrived at virtual {at} ms, expected {due} ms");
            }
            let AccountStreamEvent::Item(e) = ev else { unreachable!() };
            if e.exchange != ex_idx {
                bad!("event-exchange", "{what}: AccountEvent.exchange {} != {}", e.exchange, ex_idx);
            }
            match &e.kind {
                AccountEventKind::OrderSnapshot(s) => {
                    if s.0.key != key_of(r) {
                        bad!("event-key", "{what}: event key {:?} != original {:?}", s.0.key, key_of(r));
                    }
                    let ok = match (&s.0.state, responded, r.resp) {
                        (OrderState::Inactive(InactiveOrderState::OpenFailed(OrderError::Connectivity(ConnectivityError::Timeout))), false, _) => true,
                        (OrderState::Active(ActiveOrderState::Open(o)), true, Resp::Ok { filled }) => (filled as u32) < QTY && o.filled_quantity == Decimal::from(filled as u32),
                        (OrderState::Inactive(InactiveOrderState::FullyFilled), true, Resp::Ok { filled }) => filled as u32 >= QTY,
                        (OrderState::Inactive(InactiveOrderState::OpenFailed(OrderError::Rejected(ApiError::BalanceInsufficient(a, _)))), true, Resp::ErrAsset) => *a == r.quote_asset,
                        (OrderState::Inactive(InactiveOrderState::OpenFailed(OrderError::Connectivity(ConnectivityError::Socket(_)))), true, Resp::ErrConn) => true,
                        (OrderState::Inactive(InactiveOrderState::OpenFailed(OrderError::Rejected(ApiError::RateLimit))), true, Resp::ErrRateLimit) => true,
                        _ => false,
                    };
                    if !ok {
                        bad!("wrong-outcome", "{what}: responded-in-time = {responded} but event state is {:?}", s.0.state);
                    }
                    if s.0.quantity != Decimal::from(QTY) || s.0.price != Decimal::from(10) || s.0.side != Side::Buy {
                        bad!("event-order-data", "{what}: event carries different order data {:?}", s.0);
                    }
                }
                AccountEventKind::OrderCancelled(c) => {
                    if c.key != key_of(r) {
                        bad!("event-key", "{what}: event key {:?} != original {:?}", c.key, key_of(r));
                    }
                    let ok = match (&c.state, responded, r.resp) {
                        (Err(OrderError::Connectivity(ConnectivityError::Timeout)), false, _) => true,
                        (Ok(_), true, Resp::Ok { .. }) => true,
                        (Err(OrderError::Rejected(ApiError::AssetInvalid(a, _))), true, Resp::ErrAsset) => *a == r.quote_asset,
                        (Err(OrderError::Connectivity(ConnectivityError::Socket(_))), true, Resp::ErrConn) => true,
                        (Err(OrderError::Rejected(ApiError::RateLimit)), true, Resp::ErrRateLimit) => true,
                        _ => false,
                    };
                    if !ok {
                        bad!("wrong-outcome", "{what}: responded-in-time = {responded} but cancel state is {:?}", c.state);
                    }
                }
                _ => unreachable!(),
            }
        }
        if first.len() != reqs.len() {
            bad!("extra-events", "{} events for {} requests: {first:?}", first.len(), reqs.len());
        }
        // was any response delivered out of send order?
        expected_instants.sort();
        let send_rank: Vec<usize> = expected_instants.iter().map(|(_, i)| *i).collect();
        for w in send_rank.windows(2) {
            if (reqs[w[0]].send_ms, w[0]) > (reqs[w[1]].send_ms, w[1]) {
                out_of_send_order = true;
            }
        }
        let max_outstanding = {
            let mut pts: Vec<(u64, i32)> = Vec::new();
            for (due, i) in &expected_instants {
                pts.push((reqs[*i].send_ms, 1));
                pts.push((*due, -1));
            }
            pts.sort();
            let (mut cur, mut best) = (0, 0);
            for (_, d) in pts {
                cur += d;
                best = best.max(cur);
            }
            best
        };
        rep.class_if(timeouts > 0, "has_timeout");
        rep.class_if(responses > 0, "has_response");
        rep.class_if(out_of_send_order, "answered_out_of_send_order");
        rep.class_if(max_outstanding >= 3, "three_or_more_outstanding");
        rep.class_if(max_outstanding > 32, "more_than_32_outstanding");
        rep.class_if(ex_idx.index() > 0, "manager_of_non_first_exchange");
        rep.class_if(reqs.iter().any(|r| r.delay_ms.is_none()), "client_never_answers");
        rep.class_if(reqs.iter().any(|r| r.nth > 0), "cancel_repeated_for_same_order");
        rep.class_if(reqs.iter().filter(|r| r.cid.0.len() > 36).count() >= 2, "two_client_order_ids_longer_than_36_characters");
        rep.class_if(reqs.iter().any(|r| r.open && r.resp == Resp::ErrRateLimit && r.delay_ms.is_some_and(|d| d < timeout as u64)), "open_rejected_as_rate_limited");
        rep.class_if(reqs.iter().any(|r| reqs.iter().any(|q| q.open == r.open && q.cid == r.cid && q.inst != r.inst)), "client_order_id_shared_by_two_instruments");
        rep.class_if(reqs.iter().any(|r| r.nth > 0 && reqs.iter().any(|q| !q.open && q.cid == r.cid && q.nth + 1 == r.nth && !q.delay_ms.is_some_and(|d| d < timeout as u64))), "cancel_repeated_after_timeout");
        rep.nontrivial = max_outstanding >= 3 && timeouts > 0 && responses > 0 && out_of_send_order;
        rep
    }
}

pub fn run(ctx: &mut Ctx) {
    ctx.rule = "manager_exactly_once: 2..3 exchanges, the manager serves a generated one; timeout T in [10 ms, 5 s]; 1..16|32 requests (plus, in one case of twenty, a burst of 33..69 requests within 2 ms, most never answered) (65% open, 35% cancel; 40% of the cancels repeat an earlier cancel's order id once that one is resolved) with send offsets in [0,3T], client delay in [0,2T] or never (15%), |delay - T| >= 1 ms; responses: ok (open with fill 0..4 of 4, i.e. incl. fully filled), rejected naming an asset of the exchange, connectivity error, rejected as rate limited (persistently for an open); 15% of the client order ids are 54 characters long and agree on their first 40. Run under tokio's paused clock. non-trivial = >= 3 requests outstanding at once AND >= 1 timeout AND >= 1 in-time response AND at least one answer out of send order; distinct by hash of the case.".into();
    ctx.assumptions = vec![
        "tokio test-util paused clock: virtual time advances only when every task is idle".into(),
        "client responses name assets/instruments known to the exchange's map (an un-indexable response is filtered by design and out of scope)".into(),
        "client order ids are unique per (instrument, open request) — 30% of the requests use the id 'shared', so different instruments share it; a cancel may be repeated for the same order only after the previous cancel for it was answered or timed out (>= 1 ms later)".into(),
        "'eventually resolved' is decided as bounded: by send + timeout".into(),
    ];
    ctx.run_regressions::<ManagerExactlyOnce>();
    ctx.run::<ManagerExactlyOnce>(ctx.tier.pick(60_000, 1_000_000));
}

pub fn replay(ctx: &mut Ctx, doc: &Value) -> bool {
    ctx.replay::<ManagerExactlyOnce>(doc)
}
