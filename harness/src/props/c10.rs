//! C10 — Audit stream is gap-free and sufficient to replicate engine state.
//!
//! Check `audit_replica`: a generated engine event history (ending in Shutdown, feed exhaustion or
//! a fatal link error) is run through `sync_run_with_audit` and `async_run_with_audit` with a real
//! audit channel; the ticks received are checked for one-per-event, consecutive sequences after
//! the snapshot and a single terminal last tick, and compared with stepping an identical engine
//! through `process_with_audit`. A `StateReplicaManager` built from the snapshot is fed tick by
//! tick and compared with the engine's state after every tick; streams with a removed / repeated
//! tick must be rejected / skipped.

use crate::framework::{CaseReport, Check, Ctx, Tier};
use crate::props::enginekit::{EvSpec, Link, ReqSpec, Resolver, Rig, TestEngine, strat};
use crate::props::world::{DefaultState, InstrumentDef, simple_world};
use barter::{
    EngineEvent,
    engine::{
        EngineOutput,
        audit::{AuditTick, Auditor, EngineAudit, context::EngineContext, state_replica::StateReplicaManager},
        process_with_audit,
        run::{async_run_with_audit, sync_run_with_audit},
        state::trading::TradingState,
    },
};
use barter_data::event::DataKind;
use barter_execution::order::{
    request::{OrderRequestCancel, OrderRequestOpen},
    state::ActiveOrderState,
};
use barter_instrument::exchange::ExchangeId;
use barter_integration::{
    Terminal,
    channel::{ChannelTxDroppable, mpsc_unbounded},
};
use proptest::prelude::*;
use serde::{Deserialize, Serialize};
use serde_json::Value;

pub type Audit = EngineAudit<EngineEvent<DataKind>, EngineOutput<u64, ExchangeId>>;
type Tick = AuditTick<EngineAudit<EngineEvent<DataKind>, EngineOutput<u64, ExchangeId>>, EngineContext>;

#[derive(Debug, Clone, Copy, PartialEq, Eq, Serialize, Deserialize)]
pub enum End {
    Shutdown,
    FeedEnds,
}

#[derive(Debug, Clone, Serialize, Deserialize)]
pub struct AuditCase {
    pub defs: Vec<InstrumentDef>,
    pub links: Vec<Link>,
    pub trading_enabled_at_start: bool,
    pub events: Vec<EvSpec>,
    /// strategy outputs, consumed one per generate_algo_orders call
    pub script: Vec<(Vec<ReqSpec>, Vec<ReqSpec>)>,
    pub end: End,
    /// selector of the tick removed / duplicated in the corrupted-stream part
    pub corrupt_sel: u16,
}

pub struct AuditReplica;

fn build(case: &AuditCase) -> (Rig, Vec<EngineEvent<DataKind>>) {
    let start = if case.trading_enabled_at_start { TradingState::Enabled } else { TradingState::Disabled };
    let rig = Rig::new(&case.defs, &case.links, start);
    let indexed = rig.indexed.clone();
    let mut resolver = Resolver::new(&indexed);
    // strategy script first: later reports / cancels may then refer to strategy-opened orders
    for (c, o) in &case.script {
        let mut opens: Vec<OrderRequestOpen> = Vec::new();
        for r in o {
            opens.push(resolver.open_request(r));
        }
        let cancels: Vec<OrderRequestCancel> = c.iter().map(|r| resolver.cancel_request(r)).collect();
        rig.engine.strategy.push_script(cancels, opens);
    }
    let mut events: Vec<EngineEvent<DataKind>> = case.events.iter().map(|e| resolver.resolve(e)).collect();
    if case.end == End::Shutdown {
        events.push(EngineEvent::shutdown());
    }
    (rig, events)
}

/// Engine state with in-flight request markers set aside.
fn strip_in_flight(state: &DefaultState) -> DefaultState {
    let mut s = state.clone();
    for (_, inst) in s.instruments.0.iter_mut() {
        let mut keep = inst.orders.0.clone();
        keep.clear();
        for (cid, order) in inst.orders.0.iter() {
            match &order.state {
                ActiveOrderState::OpenInFlight(_) => {}
                ActiveOrderState::Open(_) => {
                    keep.insert(cid.clone(), order.clone());
                }
                ActiveOrderState::CancelInFlight(c) => {
                    if let Some(open) = &c.order {
                        let mut o = order.clone();
                        o.state = ActiveOrderState::Open(open.clone());
                        keep.insert(cid.clone(), o);
                    }
                }
            }
        }
        inst.orders.0 = keep;
    }
    s
}

fn diff_states(engine: &DefaultState, replica: &DefaultState) -> Option<String> {
    if engine.trading != replica.trading {
        return Some(format!("trading state: engine {:?} replica {:?}", engine.trading, replica.trading));
    }
    if engine.connectivity != replica.connectivity {
        return Some(format!("connectivity: engine {:?} replica {:?}", engine.connectivity, replica.connectivity));
    }
    if engine.assets != replica.assets {
        return Some("asset balances / statistics differ".to_string());
    }
    for (i, ((_, e), (_, r))) in engine.instruments.0.iter().zip(replica.instruments.0.iter()).enumerate() {
        if e.position != r.position {
            return Some(format!("instrument {i} position: engine {:?} replica {:?}", e.position, r.position));
        }
        if e.data != r.data {
            return Some(format!("instrument {i} market data: engine {:?} replica {:?}", e.data, r.data));
        }
        if e.tear_sheet != r.tear_sheet {
            return Some(format!("instrument {i} tear sheet differs"));
        }
        // orders as sorted vectors (hash map iteration order must not matter)
        let mut eo: Vec<_> = e.orders.0.values().cloned().collect();
        let mut ro: Vec<_> = r.orders.0.values().cloned().collect();
        eo.sort();
        ro.sort();
        if eo != ro {
            return Some(format!("instrument {i} orders (in-flight markers set aside): engine {eo:?} replica {ro:?}"));
        }
    }
    None
}

/// Ticks of two engines are compared after masking pointer addresses that the engine's error
/// messages embed (Debug output of the transmitter table).
fn mask_ptrs(v: &mut Value) {
    match v {
        Value::String(s) if s.contains("Available: ") => {
            // the message embeds the Debug output of the transmitter table (pointers, queue state)
            let cut = s.find("Available: ").unwrap();
            s.truncate(cut);
        }
        Value::String(s) if s.contains("0x") => {
            let mut out = String::with_capacity(s.len());
            let b = s.as_bytes();
            let mut i = 0;
            while i < b.len() {
                if b[i] == b'0' && i + 1 < b.len() && b[i + 1] == b'x' {
                    out.push_str("0xPTR");
                    i += 2;
                    while i < b.len() && b[i].is_ascii_hexdigit() {
                        i += 1;
                    }
                } else {
                    out.push(b[i] as char);
                    i += 1;
                }
            }
            *s = out;
        }
        Value::Array(a) => a.iter_mut().for_each(mask_ptrs),
        Value::Object(o) => o.values_mut().for_each(mask_ptrs),
        _ => {}
    }
}

fn same_tick(a: &Tick, b: &Tick) -> bool {
    if a == b {
        return true;
    }
    let (mut x, mut y) = (serde_json::to_value(a).unwrap_or(Value::Null), serde_json::to_value(b).unwrap_or(Value::Null));
    mask_ptrs(&mut x);
    mask_ptrs(&mut y);
    x == y
}

fn run_sync(engine: &mut TestEngine, events: Vec<EngineEvent<DataKind>>) -> (Vec<Tick>, EngineAudit<EngineEvent<DataKind>, EngineOutput<u64, ExchangeId>>) {
    let (tx, mut rx) = mpsc_unbounded::<Tick>();
    let mut audit_tx = ChannelTxDroppable::new(tx);
    let mut feed = events.into_iter();
    let last = sync_run_with_audit(&mut feed, engine, &mut audit_tx);
    drop(audit_tx);
    let mut ticks = Vec::new();
    while let Ok(t) = rx.rx.try_recv() {
        ticks.push(t);
    }
    (ticks, last)
}

fn run_async(engine: &mut TestEngine, events: Vec<EngineEvent<DataKind>>) -> (Vec<Tick>, EngineAudit<EngineEvent<DataKind>, EngineOutput<u64, ExchangeId>>) {
    let (tx, mut rx) = mpsc_unbounded::<Tick>();
    let mut audit_tx = ChannelTxDroppable::new(tx);
    let mut feed = futures::stream::iter(events);
    let last = futures::executor::block_on(async_run_with_audit(&mut feed, engine, &mut audit_tx));
    drop(audit_tx);
    let mut ticks = Vec::new();
    while let Ok(t) = rx.rx.try_recv() {
        ticks.push(t);
    }
    (ticks, last)
}

impl Check for AuditReplica {
    type Case = AuditCase;
    const NAME: &'static str = "audit_replica";

    fn normalise(mut case: AuditCase) -> AuditCase {
        case.defs = crate::props::world::normalise_defs(case.defs, true);
        case
    }


    fn strategy(tier: Tier) -> BoxedStrategy<AuditCase> {
        let max = match tier {
            Tier::Quick => 30,
            Tier::Thorough => 60,
        };
        (
            simple_world(1..=3, 1..4),
            prop::collection::vec(prop_oneof![12 => Just(Link::Healthy), 1 => Just(Link::Closed), 1 => Just(Link::Missing)], 3),
            any::<bool>(),
            prop::collection::vec(prop_oneof![12 => strat::any_event(false), 1 => strat::account_snapshot()], 0..max),
            prop::collection::vec((prop::collection::vec(strat::req_spec(true, false), 0..3), prop::collection::vec(strat::req_spec(true, false), 0..3)), 0..12),
            prop_oneof![Just(End::Shutdown), Just(End::FeedEnds)],
            any::<u16>(),
        )
            .prop_map(|(defs, links, trading_enabled_at_start, events, script, end, corrupt_sel)| AuditCase { defs, links, trading_enabled_at_start, events, script, end, corrupt_sel })
            .boxed()
    }

    fn eval(case: &AuditCase) -> CaseReport {
        let mut rep = CaseReport::new();
        macro_rules! bad {
            ($sig:expr, $($fmt:tt)+) => {{ rep.fail($sig, format!($($fmt)+)); return rep; }};
        }

        // ---- reference: step an engine through process_with_audit ---------------------------------
        let (mut ref_rig, events) = build(case);
        let snapshot: AuditTick<DefaultState> = <TestEngine as Auditor<Audit>>::audit_snapshot(&mut ref_rig.engine);
        let s0 = snapshot.context.sequence.0;
        if snapshot.event != ref_rig.engine.state {
            bad!("snapshot-state", "audit snapshot does not carry the engine state");
        }
        let mut replica = StateReplicaManager::new(snapshot.clone(), Vec::<Tick>::new().into_iter());
        let mut ref_ticks: Vec<Tick> = Vec::new();
        let mut states: Vec<DefaultState> = Vec::new();
        let (mut saw_exit, mut saw_reconnect, mut saw_cmd_sent, mut saw_algo_sent) = (false, false, false, false);
        let mut dup_cid = false;
        for (i, ev) in events.iter().enumerate() {
            let tracked_before: Vec<(usize, barter_execution::order::id::ClientOrderId)> = ref_rig
                .engine
                .state
                .instruments
                .0
                .values()
                .enumerate()
                .flat_map(|(n, st)| st.orders.0.keys().map(move |c| (n, c.clone())))
                .collect();
            let tick = process_with_audit(&mut ref_rig.engine, ev.clone());
            // precondition: client order ids are unique per open request. An exchange report about a
            // strategy-opened order may be generated before the strategy actually sends that open
            // (the script is consumed only while trading is enabled); such a history is outside the
            // domain: stop comparing at that tick (counted as class `duplicate_cid_open_excluded`).
            if let EngineAudit::Process(p) = &tick.event {
                let mut reported: Vec<(usize, barter_execution::order::id::ClientOrderId)> = tracked_before.clone();
                if let EngineEvent::Account(barter::execution::AccountStreamEvent::Item(a)) = &p.event {
                    if let barter_execution::AccountEventKind::OrderSnapshot(s) = &a.kind {
                        reported.push((s.0.key.instrument.index(), s.0.key.cid.clone()));
                    }
                    if let barter_execution::AccountEventKind::Snapshot(s) = &a.kind {
                        reported.extend(s.instruments.iter().flat_map(|i| i.orders.iter().map(|o| (o.key.instrument.index(), o.key.cid.clone()))));
                    }
                }
                // what was actually sent is read off the execution links (a fatal strategy tick does
                // not report its partial output)
                let sent_opens: Vec<(usize, barter_execution::order::id::ClientOrderId)> = ref_rig
                    .drain()
                    .into_iter()
                    .filter_map(|(_, r)| match r {
                        barter::execution::request::ExecutionRequest::Open(o) => Some((o.key.instrument.index(), o.key.cid.clone())),
                        _ => None,
                    })
                    .collect();
                if sent_opens.iter().any(|k| reported.contains(k)) {
                    dup_cid = true;
                    break;
                }
            }
            if tick.context.sequence.0 != s0 + 1 + i as u64 {
                bad!("sequence-gap", "tick {i} has sequence {} but snapshot had {s0}: expected {}", tick.context.sequence.0, s0 + 1 + i as u64);
            }
            let EngineAudit::Process(p) = &tick.event else { bad!("feed-ended-from-process", "process_with_audit returned FeedEnded") };
            if p.event != *ev {
                bad!("tick-event", "tick {i} carries another event");
            }
            for o in p.outputs.iter() {
                match o {
                    EngineOutput::PositionExit(_) => saw_exit = true,
                    EngineOutput::AccountDisconnect(_) | EngineOutput::MarketDisconnect(_) => saw_reconnect = true,
                    EngineOutput::Commanded(a) => {
                        use barter::engine::action::ActionOutput::*;
                        let any = match a {
                            CancelOrders(x) => !x.sent.is_none(),
                            OpenOrders(x) => !x.sent.is_none(),
                            ClosePositions(x) => !x.opens.sent.is_none() || !x.cancels.sent.is_none(),
                            GenerateAlgoOrders(_) => false,
                        };
                        saw_cmd_sent |= any;
                    }
                    EngineOutput::AlgoOrders(a) => saw_algo_sent |= !a.cancels_and_opens.is_empty(),
                    _ => {}
                }
            }
            // replica: feed exactly this tick
            replica.updates = vec![tick.clone()].into_iter();
            if let Err(e) = replica.run::<u64, ExchangeId>() {
                bad!("replica-rejected-valid-stream", "replica rejected tick {i}: {e}");
            }
            if replica.state_replica.context != tick.context {
                bad!("replica-context", "after tick {i} the replica context is {:?}, tick context {:?}", replica.state_replica.context, tick.context);
            }
            if let Some(d) = diff_states(&strip_in_flight(&ref_rig.engine.state), &strip_in_flight(replica.replica_engine_state())) {
                bad!("replica-diverged", "after tick {i} ({:?}): {d}", case.events.get(i));
            }
            // the replica itself never holds in-flight markers
            let terminal = tick.event.is_terminal();
            ref_ticks.push(tick);
            states.push(ref_rig.engine.state.clone());
            if terminal {
                break;
            }
        }
        let ended_by_terminal = ref_ticks.last().is_some_and(|t| t.event.is_terminal());
        let fatal = ended_by_terminal && !matches!(ref_ticks.last().map(|t| &t.event), Some(EngineAudit::Process(p)) if matches!(p.event, EngineEvent::Shutdown(_)));

        if dup_cid {
            rep.class("duplicate_cid_open_excluded");
            return rep;
        }
        // ---- runners ------------------------------------------------------------------------------
        for (name, is_async) in [("sync", false), ("async", true)] {
            let (mut rig, events2) = build(case);
            let snap2: AuditTick<DefaultState> = <TestEngine as Auditor<Audit>>::audit_snapshot(&mut rig.engine);
            if snap2.context.sequence.0 != s0 {
                bad!("snapshot-sequence", "{name}: snapshot sequence {} != {s0}", snap2.context.sequence.0);
            }
            let (ticks, last) = if is_async { run_async(&mut rig.engine, events2) } else { run_sync(&mut rig.engine, events2) };
            let mut expected = ref_ticks.clone();
            if !ended_by_terminal {
                // feed exhausted: one FeedEnded tick with the next sequence
                let Some(t) = ticks.last() else { bad!("no-final-tick", "{name}: no tick at all for an exhausted feed") };
                if !matches!(t.event, EngineAudit::FeedEnded) || t.context.sequence.0 != s0 + 1 + ref_ticks.len() as u64 {
                    bad!("feed-ended-tick", "{name}: last tick of an exhausted feed is {:?} seq {}, expected FeedEnded seq {}", t.event, t.context.sequence.0, s0 + 1 + ref_ticks.len() as u64);
                }
                expected.push(t.clone());
            }
            if ticks.len() != expected.len() {
                bad!("tick-count", "{name}: {} ticks on the audit channel, {} events were processed (+FeedEnded if exhausted): sequences {:?}", ticks.len(), expected.len(), ticks.iter().map(|t| t.context.sequence.0).collect::<Vec<_>>());
            }
            for (i, (a, b)) in ticks.iter().zip(expected.iter()).enumerate() {
                if !same_tick(a, b) {
                    bad!("runner-tick-differs", "{name}: tick {i} on the audit channel {:?} differs from process_with_audit's {:?}", a, b);
                }
                if a.context.sequence.0 != s0 + 1 + i as u64 {
                    bad!("sequence-gap", "{name}: tick {i} has sequence {}", a.context.sequence.0);
                }
                if a.event.is_terminal() != (i + 1 == ticks.len()) {
                    bad!("terminal-position", "{name}: tick {i} of {} terminal = {}", ticks.len(), a.event.is_terminal());
                }
            }
            let last_tick = AuditTick { event: last.clone(), context: ticks.last().map(|t| t.context).unwrap_or(snapshot.context) };
            if !ticks.last().is_some_and(|t| same_tick(t, &last_tick)) {
                bad!("returned-audit", "{name}: runner returned {last:?}, last tick on the channel is {:?}", ticks.last().map(|t| &t.event));
            }
            if let Some(d) = diff_states(&rig.engine.state, &ref_rig.engine.state) {
                bad!("runner-state-differs", "{name}: final engine state differs from stepping: {d}");
            }
            // whole stream through one replica run
            let mut r2 = StateReplicaManager::new(snap2, ticks.clone().into_iter());
            if let Err(e) = r2.run::<u64, ExchangeId>() {
                bad!("replica-rejected-valid-stream", "{name}: replica rejected the runner's stream: {e}");
            }
            if let Some(d) = diff_states(&strip_in_flight(&rig.engine.state), &strip_in_flight(r2.replica_engine_state())) {
                bad!("replica-diverged", "{name}: replica after the whole stream: {d}");
            }
        }

        // ---- corrupted streams --------------------------------------------------------------------
        if ref_ticks.len() >= 2 {
            let k = ((case.corrupt_sel as usize) * (ref_ticks.len() - 1)) >> 16; // never the last tick
            // (a) tick k removed -> rejected
            let mut missing = ref_ticks.clone();
            missing.remove(k);
            let mut r = StateReplicaManager::new(snapshot.clone(), missing.into_iter());
            if r.run::<u64, ExchangeId>().is_ok() {
                bad!("gap-accepted", "replica accepted a stream with tick {k} (sequence {}) removed", s0 + 1 + k as u64);
            }
            // (b) tick k duplicated -> skipped, same end state as the clean stream
            let mut dup = ref_ticks.clone();
            dup.insert(k, ref_ticks[k].clone());
            let mut r = StateReplicaManager::new(snapshot.clone(), dup.into_iter());
            if let Err(e) = r.run::<u64, ExchangeId>() {
                bad!("duplicate-rejected", "replica rejected a stream with tick {k} repeated: {e}");
            }
            if let Some(d) = diff_states(&strip_in_flight(states.last().unwrap()), &strip_in_flight(r.replica_engine_state())) {
                bad!("duplicate-applied", "a repeated tick {k} changed the replica: {d}");
            }
            // (c) stale replay: an old tick after the end is skipped
            let mut replay = ref_ticks.clone();
            replay.push(ref_ticks[k].clone());
            let last_is_terminal = ended_by_terminal;
            let mut r = StateReplicaManager::new(snapshot.clone(), replay.into_iter());
            if r.run::<u64, ExchangeId>().is_err() && !last_is_terminal {
                bad!("stale-replay-rejected", "replica rejected a stream followed by a stale tick");
            }
            if let Some(d) = diff_states(&strip_in_flight(states.last().unwrap()), &strip_in_flight(r.replica_engine_state())) {
                bad!("stale-replay-applied", "a stale tick after the end changed the replica: {d}");
            }
        }

        rep.class_if(saw_exit, "position_exit");
        rep.class_if(saw_reconnect, "reconnect_notice");
        rep.class_if(saw_cmd_sent, "command_with_sent_requests");
        rep.class_if(saw_algo_sent, "strategy_orders");
        rep.class_if(fatal, "ended_by_fatal_error");
        rep.class_if(!ended_by_terminal, "ended_by_feed_exhaustion");
        rep.class_if(ended_by_terminal && !fatal, "ended_by_shutdown");
        rep.nontrivial = ref_ticks.len() >= 8 && saw_exit && saw_reconnect && (saw_cmd_sent || saw_algo_sent);
        rep
    }
}

pub fn run(ctx: &mut Ctx) {
    ctx.rule = "audit_replica: 1..3 exchanges, engine event history vec(event,0..30|60) over market/account items, reconnect notices, trading-state updates and the four commands, a scripted strategy that does / does not issue orders (risk refusals included), links mostly healthy (a dead link gives a fatal-error ending), ending in Shutdown or feed exhaustion; run through sync_run_with_audit, async_run_with_audit and stepping with process_with_audit; replica compared after every tick; one tick removed / repeated / replayed stale. non-trivial = >= 8 ticks incl. a position exit, a reconnect notice and sent requests (command or strategy); distinct by hash of the case.".into();
    ctx.assumptions = vec![
        "deterministic engine clock (harness clock = latest event exchange time) so that two engines fed the same history produce comparable ticks".into(),
        "orders are compared after setting aside in-flight markers: OpenInFlight -> absent, CancelInFlight(Some(o)) -> Open(o), CancelInFlight(None) -> absent".into(),
        "requests and exchange reports about one order agree on its static data".into(),
    ];
    ctx.run_regressions::<AuditReplica>();
    ctx.run::<AuditReplica>(ctx.tier.pick(30_000, 500_000));
}

pub fn replay(ctx: &mut Ctx, doc: &Value) -> bool {
    ctx.replay::<AuditReplica>(doc)
}
