//! C13 — Market-data messages are attributed to the subscribed instrument, or rejected.
//!
//! Check `attribution`: for each of the 21 (connector, subscription kind) pairs of the dynamic
//! stream builder and each of the three instrument forms (`MarketDataInstrument`,
//! `Keyed<K, MarketDataInstrument>`, `MarketInstrumentData<K>`): the subscription side
//! (`WebSocketSubMapper::map`) is joined with the message side (payloads synthesised from an
//! independent venue table, deserialised by the connector's own input type and passed through the
//! very transformer type the connector's `StreamSelector` names). A message for a subscribed market
//! must yield exactly the events it contains, carrying that instrument's key, the connector's
//! exchange id and the stated price / amount / side / exchange time; a message for an unsubscribed
//! look-alike market must yield only an unidentifiable-subscription error.
//! Bitfinex additionally runs `BitfinexWebSocketSubValidator::validate` against an in-process
//! loopback WebSocket server that plays the venue's `subscribed` replies (channel id assignment).

use crate::framework::{CaseReport, Check, Ctx, Tier};
use barter_data::{
    Identifier,
    books::Level,
    error::DataError,
    event::MarketEvent,
    exchange::{
        Connector, StreamSelector,
        binance::{book::l2::BinanceOrderBookL2Snapshot, futures::BinanceFuturesUsd, spot::BinanceSpot},
        bitfinex::{Bitfinex, validator::BitfinexWebSocketSubValidator},
        bitmex::Bitmex,
        bybit::{futures::BybitPerpetualsUsd, spot::BybitSpot},
        coinbase::Coinbase,
        gateio::{
            future::{GateioFuturesBtc, GateioFuturesUsd},
            option::GateioOptions,
            perpetual::{GateioPerpetualsBtc, GateioPerpetualsUsd},
            spot::GateioSpot,
        },
        kraken::Kraken,
        okx::Okx,
    },
    instrument::{InstrumentData, MarketInstrumentData},
    subscriber::{
        mapper::{SubscriptionMapper, WebSocketSubMapper},
        validator::SubscriptionValidator,
    },
    subscription::{
        Map, Subscription, SubscriptionKind,
        book::{OrderBookEvent, OrderBookL1, OrderBooksL1, OrderBooksL2},
        liquidation::{Liquidation, Liquidations},
        trade::{PublicTrade, PublicTrades},
    },
    transformer::ExchangeTransformer,
};
use barter_instrument::{
    Keyed, Side,
    exchange::ExchangeId,
    instrument::{
        kind::option::{OptionExercise, OptionKind},
        market_data::{
            MarketDataInstrument,
            kind::{MarketDataFutureContract, MarketDataInstrumentKind, MarketDataOptionContract},
        },
        name::InstrumentNameExchange,
    },
};
use barter_integration::{Transformer, protocol::StreamParser, stream::ExchangeStream};
use chrono::{DateTime, Datelike, TimeZone, Utc};
use futures::{SinkExt, Stream, StreamExt};
use proptest::prelude::*;
use rust_decimal::Decimal;
use serde::{Deserialize, Serialize, de::DeserializeOwned};
use serde_json::{Value, json};
use std::{fmt::Debug, str::FromStr, time::Duration};

// ---------------------------------------------------------------------------------------------
// The transformer type a connector's StreamSelector names
// ---------------------------------------------------------------------------------------------

pub trait HasTransformer {
    type T;
}
impl<P, S, T> HasTransformer for ExchangeStream<P, S, T>
where
    P: StreamParser,
    S: Stream,
    T: Transformer,
{
    type T = T;
}
type TxOf<E, I, K> = <<E as StreamSelector<I, K>>::Stream as HasTransformer>::T;
type Outputs<Key, Ev> = Vec<Result<MarketEvent<Key, Ev>, DataError>>;

// ---------------------------------------------------------------------------------------------
// Case
// ---------------------------------------------------------------------------------------------

#[derive(Debug, Clone, Copy, PartialEq, Eq, Serialize, Deserialize)]
pub enum Cell {
    BinanceSpotTrades,
    BinanceSpotL1,
    BinanceSpotL2,
    BinanceFutTrades,
    BinanceFutL1,
    BinanceFutL2,
    BinanceFutLiquidations,
    BitfinexTrades,
    BitmexTrades,
    BybitSpotTrades,
    BybitPerpTrades,
    CoinbaseTrades,
    GateioSpotTrades,
    GateioFutUsdTrades,
    GateioFutBtcTrades,
    GateioPerpUsdTrades,
    GateioPerpBtcTrades,
    GateioOptTrades,
    KrakenTrades,
    KrakenL1,
    OkxTrades,
}

pub const CELLS: [Cell; 21] = [
    Cell::BinanceSpotTrades,
    Cell::BinanceSpotL1,
    Cell::BinanceSpotL2,
    Cell::BinanceFutTrades,
    Cell::BinanceFutL1,
    Cell::BinanceFutL2,
    Cell::BinanceFutLiquidations,
    Cell::BitfinexTrades,
    Cell::BitmexTrades,
    Cell::BybitSpotTrades,
    Cell::BybitPerpTrades,
    Cell::CoinbaseTrades,
    Cell::GateioSpotTrades,
    Cell::GateioFutUsdTrades,
    Cell::GateioFutBtcTrades,
    Cell::GateioPerpUsdTrades,
    Cell::GateioPerpBtcTrades,
    Cell::GateioOptTrades,
    Cell::KrakenTrades,
    Cell::KrakenL1,
    Cell::OkxTrades,
];

/// class label per (cell, form): 63 cells that must all be exercised
const LABELS: [[&str; 3]; 21] = [
    ["binance_spot/trades/plain", "binance_spot/trades/keyed", "binance_spot/trades/named"],
    ["binance_spot/l1/plain", "binance_spot/l1/keyed", "binance_spot/l1/named"],
    ["binance_spot/l2/plain", "binance_spot/l2/keyed", "binance_spot/l2/named"],
    ["binance_futures_usd/trades/plain", "binance_futures_usd/trades/keyed", "binance_futures_usd/trades/named"],
    ["binance_futures_usd/l1/plain", "binance_futures_usd/l1/keyed", "binance_futures_usd/l1/named"],
    ["binance_futures_usd/l2/plain", "binance_futures_usd/l2/keyed", "binance_futures_usd/l2/named"],
    ["binance_futures_usd/liquidations/plain", "binance_futures_usd/liquidations/keyed", "binance_futures_usd/liquidations/named"],
    ["bitfinex/trades/plain", "bitfinex/trades/keyed", "bitfinex/trades/named"],
    ["bitmex/trades/plain", "bitmex/trades/keyed", "bitmex/trades/named"],
    ["bybit_spot/trades/plain", "bybit_spot/trades/keyed", "bybit_spot/trades/named"],
    ["bybit_perpetuals_usd/trades/plain", "bybit_perpetuals_usd/trades/keyed", "bybit_perpetuals_usd/trades/named"],
    ["coinbase/trades/plain", "coinbase/trades/keyed", "coinbase/trades/named"],
    ["gateio_spot/trades/plain", "gateio_spot/trades/keyed", "gateio_spot/trades/named"],
    ["gateio_futures_usd/trades/plain", "gateio_futures_usd/trades/keyed", "gateio_futures_usd/trades/named"],
    ["gateio_futures_btc/trades/plain", "gateio_futures_btc/trades/keyed", "gateio_futures_btc/trades/named"],
    ["gateio_perpetuals_usd/trades/plain", "gateio_perpetuals_usd/trades/keyed", "gateio_perpetuals_usd/trades/named"],
    ["gateio_perpetuals_btc/trades/plain", "gateio_perpetuals_btc/trades/keyed", "gateio_perpetuals_btc/trades/named"],
    ["gateio_options/trades/plain", "gateio_options/trades/keyed", "gateio_options/trades/named"],
    ["kraken/trades/plain", "kraken/trades/keyed", "kraken/trades/named"],
    ["kraken/l1/plain", "kraken/l1/keyed", "kraken/l1/named"],
    ["okx/trades/plain", "okx/trades/keyed", "okx/trades/named"],
];

/// Adversarial asset names: mixed case, digits, shared prefixes.
const NAMES: [&str; 12] = ["btc", "btcu", "usd", "usdt", "usdc", "1inch", "eth", "xbt", "Sol", "BtC", "t", "sd"];

/// Expiries incl. year-boundary dates (ISO week-year differs from the calendar year there).
const EXPIRIES: [(i32, u32, u32); 8] = [(2024, 3, 29), (2024, 12, 27), (2024, 12, 30), (2025, 1, 1), (2027, 1, 1), (2021, 1, 1), (2026, 6, 26), (2023, 5, 26)];

#[derive(Debug, Clone, Copy, PartialEq, Eq, Serialize, Deserialize)]
pub struct InstGen {
    pub base: u8,
    pub quote: u8,
    /// for venues with several instrument kinds (OKX): 0 spot, 1 perpetual, 2 future, 3 option
    pub kind_sel: u8,
    pub expiry_sel: u8,
    pub strike: u16,
    pub call: bool,
}

#[derive(Debug, Clone, Copy, PartialEq, Eq, Serialize, Deserialize)]
pub struct TradeGen {
    pub price_m: u32,
    pub price_s: u8,
    pub amount_m: u32,
    pub amount_s: u8,
    pub buy: bool,
    pub dt_ms: u32,
    pub id: u32,
}

#[derive(Debug, Clone, PartialEq, Eq, Serialize, Deserialize)]
pub struct MsgGen {
    pub target: u16,
    /// address an unsubscribed look-alike of the target's market
    pub lookalike: bool,
    pub trades: Vec<TradeGen>,
}

#[derive(Debug, Clone, Serialize, Deserialize)]
pub struct AttrCase {
    pub cell: u8,
    pub form: u8,
    pub instruments: Vec<InstGen>,
    pub messages: Vec<MsgGen>,
    /// subscriptions handed to the mapper a second time: (position selector, instrument selector)
    #[serde(default)]
    pub repeats: Vec<(u16, u16)>,
}

// ---------------------------------------------------------------------------------------------
// Independent venue table: market strings and payload schemas as the venues document them
// ---------------------------------------------------------------------------------------------

fn yymmdd(d: (i32, u32, u32)) -> String {
    format!("{:02}{:02}{:02}", d.0 % 100, d.1, d.2)
}
fn yyyymmdd(d: (i32, u32, u32)) -> String {
    format!("{:04}{:02}{:02}", d.0, d.1, d.2)
}

/// Option strikes: (as the venue writes them, mantissa, scale). Index = `strike % STRIKES.len()`.
const STRIKES: [(&str, i64, u32); 9] = [("1", 1, 0), ("2", 2, 0), ("3", 3, 0), ("0.33", 33, 2), ("1.5", 15, 1), ("0.5", 5, 1), ("35000.5", 350005, 1), ("35000", 35000, 0), ("2.25", 225, 2)];

fn strike_of(sel: u16) -> (&'static str, Decimal) {
    let (text, m, s) = STRIKES[sel as usize % STRIKES.len()];
    (text, Decimal::new(m, s))
}

#[derive(Debug, Clone, PartialEq)]
struct Inst {
    base: String,
    quote: String,
    kind: MarketDataInstrumentKind,
    expiry: (i32, u32, u32),
    strike: u16,
    call: bool,
    market: String,
}

fn kind_for(cell: Cell, g: &InstGen) -> (MarketDataInstrumentKind, (i32, u32, u32)) {
    let e = EXPIRIES[g.expiry_sel as usize % EXPIRIES.len()];
    // time of day of the expiry instant (the venues' contract names carry the UTC date only)
    let (h, mi, sec) = [(8, 0, 0), (0, 0, 0), (16, 0, 0), (23, 59, 59)][(g.expiry_sel as usize / EXPIRIES.len()) % 4];
    let expiry: DateTime<Utc> = Utc.with_ymd_and_hms(e.0, e.1, e.2, h, mi, sec).single().unwrap();
    let fut = MarketDataInstrumentKind::Future(MarketDataFutureContract { expiry });
    let opt = MarketDataInstrumentKind::Option(MarketDataOptionContract {
        kind: if g.call { OptionKind::Call } else { OptionKind::Put },
        exercise: OptionExercise::European,
        expiry,
        strike: strike_of(g.strike).1,
    });
    use Cell::*;
    let k = match cell {
        BinanceSpotTrades | BinanceSpotL1 | BinanceSpotL2 | BitfinexTrades | BybitSpotTrades | CoinbaseTrades | GateioSpotTrades | KrakenTrades | KrakenL1 => MarketDataInstrumentKind::Spot,
        BinanceFutTrades | BinanceFutL1 | BinanceFutL2 | BinanceFutLiquidations | BitmexTrades | BybitPerpTrades | GateioPerpUsdTrades | GateioPerpBtcTrades => MarketDataInstrumentKind::Perpetual,
        GateioFutUsdTrades | GateioFutBtcTrades => fut,
        GateioOptTrades => opt,
        OkxTrades => match g.kind_sel % 4 {
            0 => MarketDataInstrumentKind::Spot,
            1 => MarketDataInstrumentKind::Perpetual,
            2 => fut,
            _ => opt,
        },
    };
    (k, e)
}

/// The market string the venue uses for an instrument (documented venue formats).
fn venue_market(cell: Cell, base: &str, quote: &str, kind: &MarketDataInstrumentKind, expiry: (i32, u32, u32), strike: u16, call: bool) -> String {
    let (b, q) = (base.to_uppercase(), quote.to_uppercase());
    let cp = if call { "C" } else { "P" };
    let strike = strike_of(strike).0;
    use Cell::*;
    match cell {
        BinanceSpotTrades | BinanceSpotL1 | BinanceSpotL2 | BinanceFutTrades | BinanceFutL1 | BinanceFutL2 | BinanceFutLiquidations | BitmexTrades | BybitSpotTrades | BybitPerpTrades => format!("{b}{q}"),
        BitfinexTrades => format!("t{b}{q}"),
        CoinbaseTrades => format!("{b}-{q}"),
        KrakenTrades | KrakenL1 => format!("{b}/{q}"),
        GateioSpotTrades | GateioPerpUsdTrades | GateioPerpBtcTrades => format!("{b}_{q}"),
        GateioFutUsdTrades | GateioFutBtcTrades => format!("{b}_{q}_QUARTERLY_{}", yyyymmdd(expiry)),
        GateioOptTrades => format!("{b}_{q}-{}-{strike}-{cp}", yyyymmdd(expiry)),
        OkxTrades => match kind {
            MarketDataInstrumentKind::Spot => format!("{b}-{q}"),
            MarketDataInstrumentKind::Perpetual => format!("{b}-{q}-SWAP"),
            MarketDataInstrumentKind::Future(_) => format!("{b}-{q}-{}", yymmdd(expiry)),
            MarketDataInstrumentKind::Option(_) => format!("{b}-{q}-{}-{strike}-{cp}", yymmdd(expiry)),
        },
    }
}

fn exchange_id(cell: Cell) -> ExchangeId {
    use Cell::*;
    match cell {
        BinanceSpotTrades | BinanceSpotL1 | BinanceSpotL2 => ExchangeId::BinanceSpot,
        BinanceFutTrades | BinanceFutL1 | BinanceFutL2 | BinanceFutLiquidations => ExchangeId::BinanceFuturesUsd,
        BitfinexTrades => ExchangeId::Bitfinex,
        BitmexTrades => ExchangeId::Bitmex,
        BybitSpotTrades => ExchangeId::BybitSpot,
        BybitPerpTrades => ExchangeId::BybitPerpetualsUsd,
        CoinbaseTrades => ExchangeId::Coinbase,
        GateioSpotTrades => ExchangeId::GateioSpot,
        GateioFutUsdTrades => ExchangeId::GateioFuturesUsd,
        GateioFutBtcTrades => ExchangeId::GateioFuturesBtc,
        GateioPerpUsdTrades => ExchangeId::GateioPerpetualsUsd,
        GateioPerpBtcTrades => ExchangeId::GateioPerpetualsBtc,
        GateioOptTrades => ExchangeId::GateioOptions,
        KrakenTrades | KrakenL1 => ExchangeId::Kraken,
        OkxTrades => ExchangeId::Okx,
    }
}

/// whether the venue batches several trades into one message
fn batches(cell: Cell) -> bool {
    use Cell::*;
    matches!(cell, BitmexTrades | BybitSpotTrades | BybitPerpTrades | GateioFutUsdTrades | GateioFutBtcTrades | GateioPerpUsdTrades | GateioPerpBtcTrades | GateioOptTrades | KrakenTrades | OkxTrades)
}

#[derive(Debug, Clone)]
struct Expect {
    price: String,
    amount: String,
    buy: bool,
    time_ms: Option<u64>,
    /// L1: (bid price, bid amount, ask price, ask amount)
    l1: Option<(String, String, String, String)>,
    /// L2 update sequence
    seq: Option<u64>,
}

const T_BASE: u64 = 1_700_000_000_000;

fn dec_str(m: u32, s: u8) -> String {
    format!("{}", Decimal::new(m.max(1) as i64, (s % 7) as u32))
}

fn rfc3339(ms: u64) -> String {
    Utc.timestamp_millis_opt(ms as i64).single().unwrap().to_rfc3339_opts(chrono::SecondsFormat::Millis, true)
}

/// Build the venue payload for one message and what it states.
/// `nth`: how many messages this instrument already received (L2 update ids must chain).
fn payload(cell: Cell, market: &str, chan_id: u32, trades: &[TradeGen], nth: u64) -> (String, Vec<Expect>) {
    let t0 = &trades[0];
    let mk = |t: &TradeGen| Expect { price: dec_str(t.price_m, t.price_s), amount: dec_str(t.amount_m, t.amount_s), buy: t.buy, time_ms: Some(T_BASE + t.dt_ms as u64), l1: None, seq: None };
    let side_cap = |b: bool| if b { "Buy" } else { "Sell" };
    let side_low = |b: bool| if b { "buy" } else { "sell" };
    use Cell::*;
    match cell {
        BinanceSpotTrades | BinanceFutTrades => {
            let e = mk(t0);
            let ms = e.time_ms.unwrap();
            // "m": buyer is the market maker => the taker sold
            (json!({"e":"trade","E":ms,"s":market,"t":t0.id,"p":e.price,"q":e.amount,"b":1,"a":2,"T":ms,"m":!t0.buy,"M":true}).to_string(), vec![e])
        }
        BinanceSpotL1 | BinanceFutL1 => {
            let (mut bp, mut ba) = (dec_str(t0.price_m, t0.price_s), dec_str(t0.amount_m, t0.amount_s));
            let (mut ap, mut aa) = (dec_str(t0.price_m + 1 + t0.id % 50, t0.price_s), dec_str(t0.amount_m + 3, t0.amount_s));
            // a one-sided book (thin / newly listed market): the venue states price 0 for the empty side
            match t0.id % 7 {
                0 => (bp, ba) = ("0".to_string(), "0".to_string()),
                1 => (ap, aa) = ("0".to_string(), "0".to_string()),
                _ => {}
            }
            let mut e = mk(t0);
            e.l1 = Some((bp.clone(), ba.clone(), ap.clone(), aa.clone()));
            e.time_ms = if cell == BinanceFutL1 { e.time_ms } else { None };
            let p = if cell == BinanceFutL1 {
                json!({"e":"bookTicker","u":t0.id,"E":e.time_ms.unwrap(),"T":e.time_ms.unwrap(),"s":market,"b":bp,"B":ba,"a":ap,"A":aa})
            } else {
                json!({"u":t0.id,"s":market,"b":bp,"B":ba,"a":ap,"A":aa})
            };
            (p.to_string(), vec![e])
        }
        BinanceSpotL2 | BinanceFutL2 => {
            let mut e = mk(t0);
            // snapshot id is 100; spot: first U <= 101 <= u then U = prev u + 1; futures: first
            // U <= 100 <= u then pu = prev u
            let u = 102 + 2 * nth;
            e.seq = Some(u);
            let ms = e.time_ms.unwrap();
            let p = if cell == BinanceFutL2 {
                json!({"e":"depthUpdate","E":ms,"T":ms,"s":market,"U":100 + 2 * nth,"u":u,"pu":if nth == 0 { 99 } else { 100 + 2 * nth },"b":[[e.price, e.amount]],"a":[]})
            } else {
                json!({"e":"depthUpdate","E":ms,"s":market,"U":101 + 2 * nth,"u":u,"b":[[e.price, e.amount]],"a":[]})
            };
            (p.to_string(), vec![e])
        }
        BinanceFutLiquidations => {
            let e = mk(t0);
            let ms = e.time_ms.unwrap();
            (json!({"e":"forceOrder","E":ms,"o":{"s":market,"S":if t0.buy {"BUY"} else {"SELL"},"o":"LIMIT","f":"IOC","q":e.amount,"p":e.price,"ap":e.price,"X":"FILLED","l":e.amount,"z":e.amount,"T":ms}}).to_string(), vec![e])
        }
        BitfinexTrades => {
            let e = mk(t0);
            let amount = if t0.buy { e.amount.clone() } else { format!("-{}", e.amount) };
            (format!("[{chan_id},\"te\",[{},{},{},{}]]", t0.id, e.time_ms.unwrap(), amount, e.price), vec![e])
        }
        BitmexTrades => {
            let es: Vec<Expect> = trades.iter().map(|t| { let mut e = mk(t); e.amount = format!("{}", t.amount_m.max(1)); e }).collect();
            let data: Vec<Value> = trades.iter().zip(&es).map(|(t, e)| json!({"timestamp": rfc3339(e.time_ms.unwrap()), "symbol": market, "side": side_cap(t.buy), "size": t.amount_m.max(1), "price": f64::from_str(&e.price).unwrap(), "tickDirection":"MinusTick", "trdMatchID": format!("id-{}", t.id), "grossValue": 1, "homeNotional": 0.1, "foreignNotional": 200, "trdType":"Regular"})).collect();
            (json!({"table":"trade","action":"insert","data":data}).to_string(), es)
        }
        BybitSpotTrades | BybitPerpTrades => {
            let es: Vec<Expect> = trades.iter().map(mk).collect();
            let data: Vec<Value> = trades.iter().zip(&es).map(|(t, e)| json!({"T": e.time_ms.unwrap(), "s": market, "S": side_cap(t.buy), "v": e.amount, "p": e.price, "L":"PlusTick", "i": format!("id-{}", t.id), "BT": false})).collect();
            (json!({"topic": format!("publicTrade.{market}"), "type":"snapshot", "ts": T_BASE, "data": data}).to_string(), es)
        }
        CoinbaseTrades => {
            let e = mk(t0);
            (json!({"type":"match","trade_id":t0.id,"sequence":50,"maker_order_id":"ac928c66-ca53-498f-9c13-a110027a60e8","taker_order_id":"132fb6ae-456b-4654-b4e0-d681ac05cea1","time": rfc3339(e.time_ms.unwrap()),"product_id":market,"size":e.amount,"price":e.price,"side":side_low(t0.buy)}).to_string(), vec![e])
        }
        GateioSpotTrades => {
            let e = mk(t0);
            let ms = e.time_ms.unwrap();
            (json!({"time": ms / 1000, "time_ms": ms, "channel":"spot.trades","event":"update","result":{"id":t0.id,"create_time": ms / 1000,"create_time_ms": format!("{ms}.0"),"side":side_low(t0.buy),"currency_pair":market,"amount":e.amount,"price":e.price}}).to_string(), vec![e])
        }
        GateioFutUsdTrades | GateioFutBtcTrades | GateioPerpUsdTrades | GateioPerpBtcTrades | GateioOptTrades => {
            let channel = if cell == GateioOptTrades { "options.trades" } else { "futures.trades" };
            let es: Vec<Expect> = trades.iter().map(|t| { let mut e = mk(t); e.amount = format!("{}", t.amount_m.max(1)); e }).collect();
            let data: Vec<Value> = trades.iter().zip(&es).map(|(t, e)| {
                let size = t.amount_m.max(1) as i64 * if t.buy { 1 } else { -1 };
                json!({"size": size, "id": t.id, "create_time": e.time_ms.unwrap() / 1000, "create_time_ms": e.time_ms.unwrap(), "price": e.price, "contract": market})
            }).collect();
            (json!({"time": T_BASE / 1000, "time_ms": T_BASE, "channel": channel, "event":"update", "result": data}).to_string(), es)
        }
        KrakenTrades => {
            let es: Vec<Expect> = trades.iter().map(mk).collect();
            let data: Vec<Value> = trades.iter().zip(&es).map(|(t, e)| {
                let ms = e.time_ms.unwrap();
                json!([e.price, e.amount, format!("{}.{:03}000", ms / 1000, ms % 1000), if t.buy {"b"} else {"s"}, "l", ""])
            }).collect();
            (json!([0, data, "trade", market]).to_string(), es)
        }
        KrakenL1 => {
            let (bp, ba) = (dec_str(t0.price_m, t0.price_s), dec_str(t0.amount_m, t0.amount_s));
            let (ap, aa) = (dec_str(t0.price_m + 1 + t0.id % 50, t0.price_s), dec_str(t0.amount_m + 3, t0.amount_s));
            let mut e = mk(t0);
            e.l1 = Some((bp.clone(), ba.clone(), ap.clone(), aa.clone()));
            let ms = e.time_ms.unwrap();
            (json!([0, [bp, ap, format!("{}.{:03}000", ms / 1000, ms % 1000), ba, aa], "spread", market]).to_string(), vec![e])
        }
        OkxTrades => {
            let es: Vec<Expect> = trades.iter().map(mk).collect();
            let data: Vec<Value> = trades.iter().zip(&es).map(|(t, e)| json!({"instId": market, "tradeId": format!("{}", t.id), "px": e.price, "sz": e.amount, "side": side_low(t.buy), "ts": format!("{}", e.time_ms.unwrap())})).collect();
            (json!({"arg":{"channel":"trades","instId":market},"data":data}).to_string(), es)
        }
    }
}

// ---------------------------------------------------------------------------------------------
// Per-kind comparison of a normalised event with what the payload states
// ---------------------------------------------------------------------------------------------

fn f_eq(got: f64, want: &str) -> bool {
    let w = f64::from_str(want).unwrap();
    (got - w).abs() <= 1e-12 * (1.0 + w.abs())
}
fn d_eq(got: Decimal, want: &str) -> bool {
    Decimal::from_str(want).map(|w| w == got).unwrap_or(false)
}

pub trait KindCheck: SubscriptionKind {
    fn check(event: &Self::Event, e: &Expect) -> Result<(), String>;
}
impl KindCheck for PublicTrades {
    fn check(ev: &PublicTrade, e: &Expect) -> Result<(), String> {
        let side = if e.buy { Side::Buy } else { Side::Sell };
        // Bitfinex / Gateio futures encode the side in the amount's sign: magnitudes are compared
        if f_eq(ev.price, &e.price) && f_eq(ev.amount.abs(), &e.amount) && ev.side == side {
            Ok(())
        } else {
            Err(format!("trade {ev:?}, the message states price {} amount {} side {side:?}", e.price, e.amount))
        }
    }
}
impl KindCheck for Liquidations {
    fn check(ev: &Liquidation, e: &Expect) -> Result<(), String> {
        let side = if e.buy { Side::Buy } else { Side::Sell };
        if f_eq(ev.price, &e.price) && f_eq(ev.quantity, &e.amount) && ev.side == side {
            Ok(())
        } else {
            Err(format!("liquidation {ev:?}, the message states price {} quantity {} side {side:?}", e.price, e.amount))
        }
    }
}
impl KindCheck for OrderBooksL1 {
    fn check(ev: &OrderBookL1, e: &Expect) -> Result<(), String> {
        let (bp, ba, ap, aa) = e.l1.as_ref().expect("l1 expectation");
        // a side stated with price 0 is an empty side
        let lvl = |l: &Option<Level>, p: &str, a: &str| if p == "0" { l.is_none() } else { l.is_some_and(|l| d_eq(l.price, p) && d_eq(l.amount, a)) };
        if lvl(&ev.best_bid, bp, ba) && lvl(&ev.best_ask, ap, aa) {
            Ok(())
        } else {
            Err(format!("top of book {ev:?}, the message states bid {bp} x {ba}, ask {ap} x {aa}"))
        }
    }
}
impl KindCheck for OrderBooksL2 {
    fn check(ev: &OrderBookEvent, e: &Expect) -> Result<(), String> {
        match ev {
            OrderBookEvent::Update(b) if Some(b.sequence) == e.seq && b.bids().levels().len() == 1 && d_eq(b.bids().levels()[0].price, &e.price) && d_eq(b.bids().levels()[0].amount, &e.amount) && b.asks().levels().is_empty() => Ok(()),
            other => Err(format!("book event {other:?}, the message states one bid {} x {} at sequence {:?}", e.price, e.amount, e.seq)),
        }
    }
}

// ---------------------------------------------------------------------------------------------
// Generic driver
// ---------------------------------------------------------------------------------------------

#[derive(Debug, Clone)]
struct Plan {
    cell: Cell,
    insts: Vec<Inst>,
    /// (market addressed, expected instrument index or None for a miss, payload trades)
    msgs: Vec<(String, Option<usize>, Vec<TradeGen>)>,
    /// Bitfinex channel id per instrument (assigned by the venue in its subscribed reply)
    chan_ids: Vec<u32>,
    /// order in which the venue confirms subscriptions
    confirm_order: Vec<usize>,
    /// the subscription batch handed to the mapper, as indices into `insts` (every instrument once,
    /// some a second time)
    batch: Vec<usize>,
}

impl Plan {
    /// number of earlier messages addressed to the same subscribed instrument as message `n`
    fn nth(&self, n: usize) -> u64 {
        match self.msgs[n].1 {
            None => 0,
            Some(i) => self.msgs[..n].iter().filter(|m| m.1 == Some(i)).count() as u64,
        }
    }
}

async fn bitfinex_validate<E, Key, K>(map: Map<Key>, plan: &Plan) -> Result<Map<Key>, String>
where
    E: Connector + Send,
    Key: Send,
    K: SubscriptionKind + Send,
{
    let listener = tokio::net::TcpListener::bind("127.0.0.1:0").await.map_err(|e| format!("loopback bind: {e}"))?;
    let addr = listener.local_addr().map_err(|e| e.to_string())?;
    let replies: Vec<String> = {
        let mut v = vec![json!({"event":"info","version":2,"serverId":"verif","platform":{"status":1}}).to_string()];
        for i in &plan.confirm_order {
            let m = &plan.insts[*i].market;
            v.push(json!({"event":"subscribed","channel":"trades","chanId":plan.chan_ids[*i],"symbol":m,"pair":&m[1..]}).to_string());
        }
        // the venue then sends one initial snapshot per subscription
        for i in &plan.confirm_order {
            v.push(format!("[{},[[1,{},0.5,100.0]]]", plan.chan_ids[*i], T_BASE));
        }
        v
    };
    let server = tokio::spawn(async move {
        let (stream, _) = listener.accept().await.map_err(|e| e.to_string())?;
        let mut ws = tokio_tungstenite::accept_async(stream).await.map_err(|e| e.to_string())?;
        for r in replies {
            ws.send(tokio_tungstenite::tungstenite::Message::text(r)).await.map_err(|e| e.to_string())?;
        }
        // keep the connection open until the client is done
        let _ = tokio::time::timeout(Duration::from_secs(20), ws.next()).await;
        Ok::<(), String>(())
    });
    let mut client = barter_integration::protocol::websocket::connect(format!("ws://{addr}")).await.map_err(|e| format!("loopback connect: {e}"))?;
    let validated = tokio::time::timeout(Duration::from_secs(20), BitfinexWebSocketSubValidator::validate::<E, Key, K>(map, &mut client)).await;
    drop(client);
    server.abort();
    match validated {
        Err(_) => Err("bitfinex validator did not finish within 20 s".to_string()),
        Ok(Err(e)) => Err(format!("bitfinex validator failed: {e}")),
        Ok(Ok((map, _buffered))) => Ok(map),
    }
}

fn drive<E, I, K>(exchange: E, instruments: Vec<I>, kind: K, plan: &Plan) -> Result<Vec<Outputs<I::Key, K::Event>>, (String, String)>
where
    E: StreamSelector<I, K> + Connector + Clone + Send,
    I: InstrumentData,
    I::Key: Send,
    K: SubscriptionKind + Clone + Send,
    K::Event: Debug,
    Subscription<E, I, K>: Identifier<E::Channel> + Identifier<E::Market>,
    E::Stream: HasTransformer,
    TxOf<E, I, K>: ExchangeTransformer<E, I::Key, K>,
    <TxOf<E, I, K> as Transformer>::Input: DeserializeOwned,
    MarketEvent<I::Key, K::Event>: SnapshotFor<I::Key>,
{
    let subs: Vec<Subscription<E, I, K>> = plan.batch.iter().map(|i| Subscription::new(exchange.clone(), instruments[*i].clone(), kind.clone())).collect();
    let meta = WebSocketSubMapper::map(&subs);
    let mut map = meta.instrument_map;
    if map.0.len() != instruments.len() {
        return Err(("subscription-ids-collide".into(), format!("{} subscriptions mapped to {} subscription ids: {:?}", instruments.len(), map.0.len(), map.0.keys().collect::<Vec<_>>())));
    }
    if plan.cell == Cell::BitfinexTrades {
        let rt = tokio::runtime::Builder::new_current_thread().enable_all().build().map_err(|e| ("harness".to_string(), e.to_string()))?;
        map = rt.block_on(bitfinex_validate::<E, I::Key, K>(map, plan)).map_err(|e| ("bitfinex-subscription-validation".to_string(), e))?;
    }
    let snapshots: Vec<MarketEvent<I::Key, K::Event>> = instruments.iter().filter_map(|i| <MarketEvent<I::Key, K::Event> as SnapshotFor<I::Key>>::snapshot(plan.cell, i.key().clone())).collect();
    let (tx, _rx) = tokio::sync::mpsc::unbounded_channel();
    let mut t = futures::executor::block_on(<TxOf<E, I, K> as ExchangeTransformer<E, I::Key, K>>::init(map, &snapshots, tx)).map_err(|e| ("transformer-init".to_string(), e.to_string()))?;
    let mut outs = Vec::new();
    for (n, (market, target, trades)) in plan.msgs.iter().enumerate() {
        let chan = target.map(|i| plan.chan_ids[i]).unwrap_or(999_999);
        let (p, _) = payload(plan.cell, market, chan, trades, plan.nth(n));
        let input: <TxOf<E, I, K> as Transformer>::Input = serde_json::from_str(&p).map_err(|e| ("payload-rejected".to_string(), format!("venue payload {p} is rejected by the connector's deserialiser: {e}")))?;
        outs.push(t.transform(input).into_iter().collect());
    }
    Ok(outs)
}

/// Initial snapshots (only the Binance L2 kinds need them).
pub trait SnapshotFor<Key> {
    fn snapshot(cell: Cell, key: Key) -> Option<Self>
    where
        Self: Sized;
}
impl<Key> SnapshotFor<Key> for MarketEvent<Key, OrderBookEvent> {
    fn snapshot(cell: Cell, key: Key) -> Option<Self> {
        let snap: BinanceOrderBookL2Snapshot = serde_json::from_str(r#"{"lastUpdateId":100,"bids":[],"asks":[]}"#).ok()?;
        Some(MarketEvent::from((exchange_id(cell), key, snap)))
    }
}
impl<Key> SnapshotFor<Key> for MarketEvent<Key, PublicTrade> {
    fn snapshot(_: Cell, _: Key) -> Option<Self> {
        None
    }
}
impl<Key> SnapshotFor<Key> for MarketEvent<Key, OrderBookL1> {
    fn snapshot(_: Cell, _: Key) -> Option<Self> {
        None
    }
}
impl<Key> SnapshotFor<Key> for MarketEvent<Key, Liquidation> {
    fn snapshot(_: Cell, _: Key) -> Option<Self> {
        None
    }
}

/// Compare outputs with the plan; `keys[i]` is the key instrument i was subscribed with.
fn judge<Key: PartialEq + Debug, K: KindCheck>(plan: &Plan, keys: &[Key], outs: &[Outputs<Key, K::Event>]) -> Result<(u32, u32), (String, String)>
where
    K::Event: Debug,
{
    let id = exchange_id(plan.cell);
    let (mut hits, mut misses) = (0, 0);
    for (n, ((market, target, trades), out)) in plan.msgs.iter().zip(outs).enumerate() {
        let (_, expects) = payload(plan.cell, market, 0, trades, plan.nth(n));
        match target {
            Some(i) => {
                hits += 1;
                if out.len() != expects.len() {
                    return Err(("subscribed-market-not-recognised".into(), format!("{:?} message for subscribed market {market} (instrument {:?}) produced {out:?}, expected {} event(s)", plan.cell, keys[*i], expects.len())));
                }
                for (o, e) in out.iter().zip(&expects) {
                    let ev = match o {
                        Ok(ev) => ev,
                        Err(err) => return Err(("subscribed-market-not-recognised".into(), format!("{:?} message for subscribed market {market} (instrument {:?}) was rejected: {err:?}", plan.cell, keys[*i]))),
                    };
                    if ev.instrument != keys[*i] {
                        return Err(("wrong-instrument".into(), format!("{:?} message for market {market} attributed to {:?}, subscribed under that market is {:?}", plan.cell, ev.instrument, keys[*i])));
                    }
                    if ev.exchange != id {
                        return Err(("wrong-exchange".into(), format!("{:?} event carries exchange {}, expected {id}", plan.cell, ev.exchange)));
                    }
                    if let Some(ms) = e.time_ms {
                        let got = ev.time_exchange.timestamp_millis();
                        if (got - ms as i64).abs() > 1 {
                            return Err(("wrong-exchange-time".into(), format!("{:?} event time {} ms, the message states {ms}", plan.cell, got)));
                        }
                    }
                    K::check(&ev.kind, e).map_err(|m| ("wrong-content".to_string(), format!("{:?} market {market}: {m}", plan.cell)))?;
                }
            }
            None => {
                misses += 1;
                match out.as_slice() {
                    [Err(DataError::Socket(_))] => {}
                    other => return Err(("unsubscribed-market-produced-event".into(), format!("{:?} message for unsubscribed market {market} produced {other:?}, expected only an unidentifiable-subscription error", plan.cell))),
                }
            }
        }
    }
    Ok((hits, misses))
}

/// Run one cell for the chosen instrument form.
fn run_cell<E, K>(exchange: E, kind: K, plan: &Plan, form: u8) -> Result<(u32, u32), (String, String)>
where
    K: KindCheck + Clone + Send,
    K::Event: Debug,
    E: Connector + Clone + Send + StreamSelector<MarketDataInstrument, K> + StreamSelector<Keyed<u32, MarketDataInstrument>, K> + StreamSelector<MarketInstrumentData<u32>, K>,
    Subscription<E, MarketDataInstrument, K>: Identifier<E::Channel> + Identifier<E::Market>,
    Subscription<E, Keyed<u32, MarketDataInstrument>, K>: Identifier<E::Channel> + Identifier<E::Market>,
    Subscription<E, MarketInstrumentData<u32>, K>: Identifier<E::Channel> + Identifier<E::Market>,
    <E as StreamSelector<MarketDataInstrument, K>>::Stream: HasTransformer,
    <E as StreamSelector<Keyed<u32, MarketDataInstrument>, K>>::Stream: HasTransformer,
    <E as StreamSelector<MarketInstrumentData<u32>, K>>::Stream: HasTransformer,
    TxOf<E, MarketDataInstrument, K>: ExchangeTransformer<E, MarketDataInstrument, K>,
    TxOf<E, Keyed<u32, MarketDataInstrument>, K>: ExchangeTransformer<E, u32, K>,
    TxOf<E, MarketInstrumentData<u32>, K>: ExchangeTransformer<E, u32, K>,
    <TxOf<E, MarketDataInstrument, K> as Transformer>::Input: DeserializeOwned,
    <TxOf<E, Keyed<u32, MarketDataInstrument>, K> as Transformer>::Input: DeserializeOwned,
    <TxOf<E, MarketInstrumentData<u32>, K> as Transformer>::Input: DeserializeOwned,
    MarketEvent<MarketDataInstrument, K::Event>: SnapshotFor<MarketDataInstrument>,
    MarketEvent<u32, K::Event>: SnapshotFor<u32>,
{
    let mdi: Vec<MarketDataInstrument> = plan.insts.iter().map(|i| MarketDataInstrument::from((i.base.as_str(), i.quote.as_str(), i.kind.clone()))).collect();
    match form % 3 {
        0 => {
            let outs = drive::<E, MarketDataInstrument, K>(exchange, mdi.clone(), kind, plan)?;
            judge::<MarketDataInstrument, K>(plan, &mdi, &outs)
        }
        1 => {
            let keys: Vec<u32> = (0..mdi.len() as u32).map(|k| 1000 + k).collect();
            let insts: Vec<Keyed<u32, MarketDataInstrument>> = mdi.iter().zip(&keys).map(|(m, k)| Keyed::new(*k, m.clone())).collect();
            let outs = drive::<E, Keyed<u32, MarketDataInstrument>, K>(exchange, insts, kind, plan)?;
            judge::<u32, K>(plan, &keys, &outs)
        }
        _ => {
            // the user names the venue's market directly
            let keys: Vec<u32> = (0..mdi.len() as u32).map(|k| 2000 + k).collect();
            let insts: Vec<MarketInstrumentData<u32>> = plan.insts.iter().zip(&keys).map(|(i, k)| MarketInstrumentData { key: *k, name_exchange: InstrumentNameExchange::new(i.market.clone()), kind: i.kind.clone() }).collect();
            let outs = drive::<E, MarketInstrumentData<u32>, K>(exchange, insts, kind, plan)?;
            judge::<u32, K>(plan, &keys, &outs)
        }
    }
}

fn dispatch(plan: &Plan, form: u8) -> Result<(u32, u32), (String, String)> {
    use Cell::*;
    match plan.cell {
        BinanceSpotTrades => run_cell(BinanceSpot::default(), PublicTrades, plan, form),
        BinanceSpotL1 => run_cell(BinanceSpot::default(), OrderBooksL1, plan, form),
        BinanceSpotL2 => run_cell(BinanceSpot::default(), OrderBooksL2, plan, form),
        BinanceFutTrades => run_cell(BinanceFuturesUsd::default(), PublicTrades, plan, form),
        BinanceFutL1 => run_cell(BinanceFuturesUsd::default(), OrderBooksL1, plan, form),
        BinanceFutL2 => run_cell(BinanceFuturesUsd::default(), OrderBooksL2, plan, form),
        BinanceFutLiquidations => run_cell(BinanceFuturesUsd::default(), Liquidations, plan, form),
        BitfinexTrades => run_cell(Bitfinex, PublicTrades, plan, form),
        BitmexTrades => run_cell(Bitmex, PublicTrades, plan, form),
        BybitSpotTrades => run_cell(BybitSpot::default(), PublicTrades, plan, form),
        BybitPerpTrades => run_cell(BybitPerpetualsUsd::default(), PublicTrades, plan, form),
        CoinbaseTrades => run_cell(Coinbase, PublicTrades, plan, form),
        GateioSpotTrades => run_cell(GateioSpot::default(), PublicTrades, plan, form),
        GateioFutUsdTrades => run_cell(GateioFuturesUsd::default(), PublicTrades, plan, form),
        GateioFutBtcTrades => run_cell(GateioFuturesBtc::default(), PublicTrades, plan, form),
        GateioPerpUsdTrades => run_cell(GateioPerpetualsUsd::default(), PublicTrades, plan, form),
        GateioPerpBtcTrades => run_cell(GateioPerpetualsBtc::default(), PublicTrades, plan, form),
        GateioOptTrades => run_cell(GateioOptions::default(), PublicTrades, plan, form),
        KrakenTrades => run_cell(Kraken, PublicTrades, plan, form),
        KrakenL1 => run_cell(Kraken, OrderBooksL1, plan, form),
        OkxTrades => run_cell(Okx, PublicTrades, plan, form),
    }
}

// ---------------------------------------------------------------------------------------------
// The check
// ---------------------------------------------------------------------------------------------

pub struct Attribution;

fn plan_of(case: &AttrCase) -> (Plan, u32, bool, bool, bool) {
    let cell = CELLS[case.cell as usize % CELLS.len()];
    let mut insts: Vec<Inst> = Vec::new();
    let mut excluded = 0u32;
    for g in &case.instruments {
        let base = NAMES[g.base as usize % NAMES.len()];
        let mut quote = NAMES[g.quote as usize % NAMES.len()];
        if quote.eq_ignore_ascii_case(base) {
            quote = NAMES[(g.quote as usize + 1) % NAMES.len()];
        }
        let (kind, expiry) = kind_for(cell, g);
        let market = venue_market(cell, base, quote, &kind, expiry, g.strike, g.call);
        // two instruments with the same venue market string are ambiguous at the venue itself
        if insts.iter().any(|i| i.market == market) {
            excluded += 1;
            continue;
        }
        insts.push(Inst { base: base.to_string(), quote: quote.to_string(), kind, expiry, strike: g.strike, call: g.call, market });
    }
    let mut msgs = Vec::new();
    let mut prefix_pair = false;
    for i in 0..insts.len() {
        for j in 0..insts.len() {
            if i != j && (insts[j].market.starts_with(&insts[i].market) || insts[j].base.to_lowercase().starts_with(&insts[i].base.to_lowercase())) {
                prefix_pair = true;
            }
        }
    }
    let mut year_boundary = false;
    let mut case_variant_probe = false;
    for m in &case.messages {
        if insts.is_empty() {
            break;
        }
        let i = (m.target as usize * insts.len()) >> 16;
        let inst = &insts[i];
        if matches!(inst.kind, MarketDataInstrumentKind::Future(_) | MarketDataInstrumentKind::Option(_)) && cell == Cell::OkxTrades {
            let d = chrono::NaiveDate::from_ymd_opt(inst.expiry.0, inst.expiry.1, inst.expiry.2).unwrap();
            year_boundary |= d.iso_week().year() != d.year();
        }
        let n_trades = if batches(cell) { m.trades.len().clamp(1, 3) } else { 1 };
        let mut trades: Vec<TradeGen> = m.trades.iter().take(n_trades).copied().collect();
        if trades.is_empty() {
            continue;
        }
        // one taker order sweeping two equal resting orders at one level: two rows that state the same
        // price, amount, time and side (only the trade id, where the venue gives one, differs)
        if trades.len() >= 2 && trades[1].id % 4 == 0 {
            trades[1] = TradeGen { id: trades[1].id, ..trades[0] };
        }
        if m.lookalike {
            // unsubscribed look-alikes of the target's market
            let candidates = [
                venue_market(cell, &format!("{}u", inst.base), &inst.quote, &inst.kind, inst.expiry, inst.strike, inst.call),
                venue_market(cell, &inst.base, &format!("{}t", inst.quote), &inst.kind, inst.expiry, inst.strike, inst.call),
                venue_market(cell, &inst.quote, &inst.base, &inst.kind, inst.expiry, inst.strike, inst.call),
                venue_market(cell, &inst.base, &inst.quote, &inst.kind, inst.expiry, inst.strike.wrapping_add(1), !inst.call),
            ];
            // also: the subscribed market's name in the other letter case (a different market string)
            let flipped = if inst.market.chars().any(|c| c.is_ascii_uppercase()) { inst.market.to_lowercase() } else { inst.market.to_uppercase() };
            let mut candidates: Vec<String> = candidates.to_vec();
            if flipped != inst.market {
                if trades[0].id % 3 == 0 {
                    candidates.insert(0, flipped);
                } else {
                    candidates.push(flipped);
                }
            }
            if let Some(miss) = candidates.iter().find(|c| insts.iter().all(|i| &i.market != *c)) {
                case_variant_probe |= miss.to_lowercase() == inst.market.to_lowercase();
                msgs.push((miss.clone(), None, trades));
            }
        } else {
            msgs.push((inst.market.clone(), Some(i), trades));
        }
    }
    let n = insts.len();
    let chan_ids: Vec<u32> = (0..n as u32).map(|i| 420_000 + ((i * 7 + case.cell as u32 * 13) % 97) * 11 + i).collect();
    let mut confirm_order: Vec<usize> = (0..n).collect();
    confirm_order.reverse();
    if case.form % 2 == 1 && n > 1 {
        confirm_order.swap(0, n - 1);
    }
    let mut batch: Vec<usize> = (0..n).collect();
    // Bitfinex answers every request with its own confirmation (a repeat is refused by the venue)
    if cell != Cell::BitfinexTrades && n > 0 {
        for (pos, which) in case.repeats.iter().take(2) {
            let at = (*pos as usize * (batch.len() + 1)) >> 16;
            batch.insert(at, (*which as usize * n) >> 16);
        }
    }
    (Plan { cell, insts, msgs, chan_ids, confirm_order, batch }, excluded, prefix_pair, year_boundary, case_variant_probe)
}

fn inst_gen() -> impl Strategy<Value = InstGen> {
    (0u8..12, 0u8..12, 0u8..4, 0u8..32, 0u16..9, any::<bool>()).prop_map(|(base, quote, kind_sel, expiry_sel, strike, call)| InstGen { base, quote, kind_sel, expiry_sel, strike, call })
}

fn trade_gen() -> impl Strategy<Value = TradeGen> {
    (1u32..10_000_000, 0u8..7, 1u32..1_000_000, 0u8..7, any::<bool>(), 0u32..100_000, 1u32..1_000_000)
        .prop_map(|(price_m, price_s, amount_m, amount_s, buy, dt_ms, id)| TradeGen { price_m, price_s, amount_m, amount_s, buy, dt_ms, id })
}

impl Check for Attribution {
    type Case = AttrCase;
    const NAME: &'static str = "attribution";

    fn normalise(mut case: AttrCase) -> AttrCase {
        case.cell %= 21;
        // the Bitfinex cell opens a loopback WebSocket per case: far too slow for a coverage-guided
        // campaign, it stays with the property-based engine
        if CELLS[case.cell as usize] == Cell::BitfinexTrades {
            case.cell = (case.cell + 1) % 21;
        }
        case.form %= 3;
        case.instruments.truncate(5);
        while case.instruments.len() < 2 {
            case.instruments.push(InstGen { base: case.instruments.len() as u8, quote: 3, kind_sel: 0, expiry_sel: 0, strike: 0, call: true });
        }
        case.messages.truncate(7);
        for m in &mut case.messages {
            m.trades.truncate(3);
            if m.trades.is_empty() {
                m.trades.push(TradeGen { price_m: 1, price_s: 0, amount_m: 1, amount_s: 0, buy: true, dt_ms: 0, id: 1 });
            }
            for t in &mut m.trades {
                t.price_m = 1 + t.price_m % 9_999_999;
                t.amount_m = 1 + t.amount_m % 999_999;
                t.dt_ms %= 100_000;
                t.id = 1 + t.id % 999_999;
            }
        }
        case.repeats.truncate(2);
        case
    }

    fn strategy(_tier: Tier) -> BoxedStrategy<AttrCase> {
        (
            0u8..21,
            0u8..3,
            prop::collection::vec(inst_gen(), 2..=5),
            prop::collection::vec((any::<u16>(), prop::bool::weighted(0.35), prop::collection::vec(trade_gen(), 1..4)), 1..8),
            prop_oneof![3 => Just(vec![]), 1 => prop::collection::vec((any::<u16>(), any::<u16>()), 1..=2)],
        )
            .prop_map(|(cell, form, instruments, msgs, repeats)| AttrCase { cell, form, instruments, messages: msgs.into_iter().map(|(target, lookalike, trades)| MsgGen { target, lookalike, trades }).collect(), repeats })
            .boxed()
    }

    fn eval(case: &AttrCase) -> CaseReport {
        let mut rep = CaseReport::new();
        let (plan, excluded, prefix_pair, year_boundary, case_variant_probe) = plan_of(case);
        rep.class_if(excluded > 0, "ambiguous_venue_market_excluded");
        if plan.insts.is_empty() || plan.msgs.is_empty() {
            return rep;
        }
        match dispatch(&plan, case.form) {
            Err((sig, msg)) => {
                rep.fail(sig, msg);
                return rep;
            }
            Ok((hits, misses)) => {
                rep.class(LABELS[case.cell as usize % 21][case.form as usize % 3]);
                rep.class_if(prefix_pair, "instruments_sharing_a_prefix");
                rep.class_if(year_boundary, "okx_expiry_at_year_boundary");
                rep.class_if(batches(plan.cell) && case.messages.iter().any(|m| m.trades.len() >= 2 && m.trades[1].id % 4 == 0), "batch_with_two_identical_rows");
                rep.class_if(case_variant_probe, "unsubscribed_probe_is_a_case_variant_of_a_subscribed_market");
                rep.class_if(plan.insts.iter().any(|i| match &i.kind { MarketDataInstrumentKind::Future(f) => f.expiry.time() >= chrono::NaiveTime::from_hms_opt(16, 0, 0).unwrap(), MarketDataInstrumentKind::Option(o) => o.expiry.time() >= chrono::NaiveTime::from_hms_opt(16, 0, 0).unwrap(), _ => false }), "expiry_late_in_the_utc_day");
                rep.class_if(plan.batch.len() > plan.insts.len(), "subscription_repeated_in_batch");
                rep.class_if(plan.batch.iter().enumerate().any(|(p, i)| plan.batch[..p].contains(i) && plan.batch[p + 1..].iter().any(|j| !plan.batch[..p].contains(j))), "repeat_followed_by_new_market");
                rep.class_if(plan.insts.iter().any(|i| matches!(&i.kind, MarketDataInstrumentKind::Option(o) if o.strike.scale() > 0)), "option_with_fractional_strike");
                rep.class_if(hits > 0, "message_for_subscribed_market");
                rep.class_if(misses > 0, "message_for_unsubscribed_lookalike");
                rep.nontrivial = plan.insts.len() >= 2 && prefix_pair && hits > 0 && misses > 0;
            }
        }
        rep
    }
}


// ---------------------------------------------------------------------------------------------
// indexed_subscriptions: the dynamic builder's index-keyed subscription forms
// ---------------------------------------------------------------------------------------------

#[derive(Debug, Clone, Serialize, Deserialize)]
pub struct IndexedSubsCase {
    pub defs: Vec<crate::props::world::InstrumentDef>,
    /// order in which the unindexed subscriptions are handed over
    pub order: Vec<u16>,
}

/// `generate_indexed_market_data_subscription_batches` / `index_market_data_subscription_batches`
/// give every subscription the index of exactly the instrument it is for.
pub struct IndexedSubscriptions;

impl Check for IndexedSubscriptions {
    type Case = IndexedSubsCase;
    const NAME: &'static str = "indexed_subscriptions";

    fn normalise(mut case: IndexedSubsCase) -> IndexedSubsCase {
        case.defs = crate::props::world::normalise_defs(case.defs, false);
        case
    }

    fn strategy(_tier: Tier) -> BoxedStrategy<IndexedSubsCase> {
        use crate::props::world::{InstrumentDef, KindDef, UnitDef, instrument_def};
        (
            (1u8..=3).prop_flat_map(|n| prop::collection::vec(instrument_def(n), 0..6)),
            // an option / future chain: few underlyings, many contracts
            prop::collection::vec((0u8..2, 0u8..2, 0u8..3, any::<bool>(), 0u16..3, any::<bool>()), 0..7),
            prop::collection::vec(any::<u16>(), 0..14),
        )
            .prop_map(|(mut defs, chain, order)| {
                for (exchange, base, expiry_day, call, strike, future) in chain {
                    let kind = if future { KindDef::Future { settle: 2, expiry_day } } else { KindDef::Option { settle: 2, expiry_day, call, strike } };
                    defs.push(InstrumentDef { exchange, base, quote: 2, kind, unit: UnitDef::NoSpec });
                }
                IndexedSubsCase { defs, order }
            })
            .boxed()
    }

    fn eval(case: &IndexedSubsCase) -> CaseReport {
        use crate::props::world::{self, InstrumentDef, KindDef};
        use barter_data::{
            streams::builder::dynamic::indexed::{generate_indexed_market_data_subscription_batches, index_market_data_subscription_batches},
            subscription::SubKind,
        };
        let mut rep = CaseReport::new();
        macro_rules! bad {
            ($sig:expr, $($fmt:tt)+) => {{ rep.fail($sig, format!($($fmt)+)); return rep; }};
        }
        let mut defs: Vec<InstrumentDef> = Vec::new();
        for d in &case.defs {
            if !defs.contains(d) {
                defs.push(*d);
            }
        }
        if defs.is_empty() {
            return rep;
        }
        let indexed = world::index(&defs);
        let index_of = |d: &InstrumentDef| indexed.instruments().iter().find(|i| i.value.name_internal.name().as_str() == d.name_internal()).map(|i| i.key);
        let md_kind = |d: &InstrumentDef| match d.kind {
            KindDef::Spot => MarketDataInstrumentKind::Spot,
            KindDef::Perpetual { .. } => MarketDataInstrumentKind::Perpetual,
            KindDef::Future { expiry_day, .. } => MarketDataInstrumentKind::Future(MarketDataFutureContract { expiry: crate::props::gens::ts(crate::props::gens::T0_MS + 86_400_000 * (30 + expiry_day as i64)) }),
            KindDef::Option { expiry_day, call, strike, .. } => MarketDataInstrumentKind::Option(MarketDataOptionContract {
                kind: if call { OptionKind::Call } else { OptionKind::Put },
                exercise: OptionExercise::European,
                expiry: crate::props::gens::ts(crate::props::gens::T0_MS + 86_400_000 * (30 + expiry_day as i64)),
                strike: Decimal::from(strike as u32 + 1),
            }),
        };

        // ---- (a) subscriptions generated from the index ---------------------------------------
        let batches = generate_indexed_market_data_subscription_batches(&indexed, &[SubKind::PublicTrades, SubKind::OrderBooksL1]);
        let mut seen: Vec<(usize, SubKind)> = Vec::new();
        for batch in &batches {
            for sub in batch {
                if sub.exchange != batch[0].exchange {
                    bad!("generated:batch-mixes-exchanges", "a generated batch holds subscriptions for {} and {}", batch[0].exchange, sub.exchange);
                }
                let Some(inst) = indexed.instruments().get(sub.instrument.key.index()) else {
                    bad!("generated:unknown-index", "generated subscription carries {:?}, the collection has {} instruments", sub.instrument.key, indexed.instruments().len());
                };
                if inst.key != sub.instrument.key || inst.value.exchange.value != sub.exchange || inst.value.name_exchange != sub.instrument.name_exchange || !inst.value.kind.eq_market_data_instrument_kind(&sub.instrument.kind) {
                    bad!("generated:wrong-index", "generated subscription ({}, {}, {:?}) carries {:?}, which is {} on {}", sub.exchange, sub.instrument.name_exchange, sub.instrument.kind, sub.instrument.key, inst.value.name_exchange, inst.value.exchange.value);
                }
                seen.push((sub.instrument.key.index(), sub.kind));
            }
        }
        let mut want: Vec<(usize, SubKind)> = (0..indexed.instruments().len()).flat_map(|i| [(i, SubKind::PublicTrades), (i, SubKind::OrderBooksL1)]).collect();
        seen.sort_by_key(|(i, k)| (*i, *k as u8));
        want.sort_by_key(|(i, k)| (*i, *k as u8));
        if seen != want {
            bad!("generated:coverage", "generated subscriptions cover {seen:?}, expected every instrument once per kind {want:?}");
        }

        // ---- (b) unindexed subscriptions indexed against the collection ----------------------
        // two definitions that differ only in what the market-data form does not carry (settlement
        // asset, quantity unit) are indistinguishable there: set aside
        let md_key = |d: &InstrumentDef| (d.exchange_id(), d.base % 7, d.quote % 7, format!("{:?}", md_kind(d)));
        let unambiguous: Vec<&InstrumentDef> = defs.iter().filter(|d| defs.iter().filter(|o| md_key(o) == md_key(d)).count() == 1).collect();
        let excluded = defs.len() - unambiguous.len();
        let mut order: Vec<usize> = (0..unambiguous.len()).collect();
        order.sort_by_key(|i| (case.order.get(*i).copied().unwrap_or(0), *i));
        let subs: Vec<(Subscription<ExchangeId, MarketDataInstrument, SubKind>, &InstrumentDef)> = order
            .iter()
            .map(|i| {
                let d = unambiguous[*i];
                let inst = d.to_instrument();
                let md = MarketDataInstrument::from((inst.underlying.base.name_internal.name().as_str(), inst.underlying.quote.name_internal.name().as_str(), md_kind(d)));
                (Subscription::new(d.exchange_id(), md, SubKind::PublicTrades), d)
            })
            .collect();
        let mut sibling_contracts = false;
        for (i, (_, a)) in subs.iter().enumerate() {
            for (_, b) in &subs[i + 1..] {
                let same_underlying = a.exchange_id() == b.exchange_id() && a.base % 7 == b.base % 7 && a.quote % 7 == b.quote % 7;
                if same_underlying && matches!((a.kind, b.kind), (KindDef::Option { .. }, KindDef::Option { .. }) | (KindDef::Future { .. }, KindDef::Future { .. })) {
                    sibling_contracts = true;
                }
            }
        }
        // two batches: split in the middle (batching is the caller's choice)
        let mid = subs.len() / 2;
        let batches_in: Vec<Vec<Subscription<ExchangeId, MarketDataInstrument, SubKind>>> = vec![subs[..mid].iter().map(|(s, _)| s.clone()).collect(), subs[mid..].iter().map(|(s, _)| s.clone()).collect()];
        match index_market_data_subscription_batches(&indexed, batches_in) {
            Err(e) => bad!("indexing:failed", "indexing subscriptions for instruments of the collection failed: {e}"),
            Ok(out) => {
                let flat: Vec<_> = out.into_iter().flatten().collect();
                if flat.len() != subs.len() {
                    bad!("indexing:count", "{} subscriptions in, {} out", subs.len(), flat.len());
                }
                for (got, (sub, d)) in flat.iter().zip(&subs) {
                    let want = index_of(d);
                    if Some(got.instrument.key) != want || got.instrument.value != sub.instrument || got.exchange != sub.exchange || got.kind != sub.kind {
                        bad!("indexing:wrong-index", "subscription for {} ({:?}) was given {:?}, that instrument is {want:?} (index {:?} is {})", d.name_internal(), sub.instrument.kind, got.instrument.key, got.instrument.key, indexed.instruments().get(got.instrument.key.index()).map(|i| i.value.name_internal.name().to_string()).unwrap_or_default());
                    }
                }
            }
        }
        rep.class_if(excluded > 0, "indistinguishable_definitions_excluded");
        rep.class_if(sibling_contracts, "sibling_contracts_on_one_underlying");
        rep.class_if(indexed.exchanges().len() >= 2, "two_or_more_exchanges");
        rep.nontrivial = sibling_contracts && subs.len() >= 3;
        rep
    }
}

pub fn run(ctx: &mut Ctx) {
    ctx.rule = "attribution: a (connector, kind) pair out of the 21 the dynamic builder supports x an instrument form (MarketDataInstrument / Keyed<K,_> / MarketInstrumentData<K>) x 2..5 instruments with names from an adversarial pool (mixed case, digits, shared prefixes: btc/btcu/usd/usdt/usdc/1inch/xbt/t/sd ...) and kinds legal for the venue (expiries incl. year-boundary dates and expiry instants at 00:00 / 08:00 / 16:00 / 23:59:59 UTC, strikes incl. fractional ones such as 0.33 / 1.5 / 35000.5, call/put for Gateio/OKX futures and options); in a quarter of the cases 1..2 subscriptions appear a second time in the batch handed to the mapper (not for Bitfinex) x 1..7 messages each for a subscribed market or an unsubscribed look-alike (35%; incl. the subscribed market's name in the other letter case), 1..3 trades per message on batching venues; two in seven Binance top-of-book messages are one-sided (price 0 on the empty side ⇒ that side absent). Venue market strings and payload schemas come from an independent table written from the venue formats the repo documents. Pairs of instruments whose venue market strings coincide are dropped (counted). non-trivial = >= 2 subscribed instruments sharing a prefix AND both a hit and a miss message; every one of the 63 (connector, kind, form) cells must be exercised or the run is inconclusive. indexed_subscriptions: 0..5 instrument definitions over 1..3 exchanges plus a chain of 0..6 futures / options on two underlyings (3 expiries, call/put, 3 strikes); generate_indexed_market_data_subscription_batches must give every instrument one subscription per kind carrying its own index, and index_market_data_subscription_batches must give each unindexed subscription (handed over in a generated order, in two batches) the index of exactly the instrument it was derived from; definitions that differ only in settlement asset / quantity unit are indistinguishable in the market-data form and set aside (counted). non-trivial = >= 3 subscriptions incl. two futures or two options on one underlying.".into();
    ctx.assumptions = vec![
        "venues behave as their documented formats say (market strings, payload shapes, Bitfinex channel-id assignment in `subscribed` replies)".into(),
        "prices/amounts compared as the parsed decimal strings (f64 fields within 1e-12 relative); exchange time within 1 ms; Bitfinex / Gateio-futures sign-encoded amounts compared by magnitude".into(),
        "Bitfinex subscription validation runs against an in-process loopback WebSocket server on 127.0.0.1".into(),
    ];
    for row in LABELS.iter() {
        for l in row {
            ctx.require_class::<Attribution>(l);
        }
    }
    ctx.run_regressions::<Attribution>();
    ctx.run::<Attribution>(ctx.tier.pick(63_000, 1_050_000));
    ctx.run_regressions::<IndexedSubscriptions>();
    ctx.run::<IndexedSubscriptions>(ctx.tier.pick(30_000, 400_000));
}

pub fn replay(ctx: &mut Ctx, doc: &Value) -> bool {
    ctx.replay::<Attribution>(doc) || ctx.replay::<IndexedSubscriptions>(doc)
}
