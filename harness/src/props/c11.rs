//! C11 — Instrument/asset/exchange indices are dense, unique and consistently resolved.
//!
//! Check `index_tables`: generated multisets of instrument definitions (several exchanges, all
//! four kinds with settlement assets, quantity-unit assets, duplicates, asset names shared between
//! exchanges) are indexed in three insertion orders; the tables, every lookup in both directions,
//! every cross reference, and the engine-state / connectivity / execution-link tables derived from
//! them are compared with sets computed independently from the definitions.

use crate::framework::{CaseReport, Check, Ctx, Tier};
use crate::props::world::{self, ASSETS, EXCHANGES, InstrumentDef, KindDef, UnitDef, asset_def, instrument_def};
use barter::{
    engine::{
        clock::HistoricalClock,
        state::{
            asset::generate_empty_indexed_asset_states,
            connectivity::generate_empty_indexed_connectivity_states,
            trading::TradingState,
        },
    },
    execution::builder::ExecutionBuilder,
};
use barter_execution::{UnindexedAccountSnapshot, client::mock::MockExecutionConfig};
use barter_instrument::{
    asset::{Asset, AssetIndex, ExchangeAsset, name::AssetNameInternal},
    exchange::{ExchangeId, ExchangeIndex},
    index::IndexedInstruments,
    instrument::{Instrument, InstrumentIndex, name::InstrumentNameInternal, spec::OrderQuantityUnits},
};
use proptest::prelude::*;
use rust_decimal::Decimal;
use serde::{Deserialize, Serialize};
use serde_json::Value;
use std::collections::BTreeSet;

#[derive(Debug, Clone, Serialize, Deserialize)]
pub struct IndexCase {
    pub defs: Vec<InstrumentDef>,
    /// ordering keys for the 2nd and 3rd insertion order
    pub order_b: Vec<u16>,
    pub order_c: Vec<u16>,
    /// bit e set: add a mock execution link for pool exchange e (if all its instruments are spot)
    pub mock_mask: u8,
}

fn permuted<T: Clone>(items: &[T], keys: &[u16]) -> Vec<T> {
    let mut idx: Vec<usize> = (0..items.len()).collect();
    idx.sort_by_key(|i| (keys.get(*i).copied().unwrap_or(0), *i));
    idx.into_iter().map(|i| items[i].clone()).collect()
}

/// Assets referenced by a definition on its exchange (independent of the repo's builder).
fn assets_of(d: &InstrumentDef) -> Vec<Asset> {
    let ex = d.exchange_id();
    let mut v = vec![asset_def(ex, d.base), asset_def(ex, d.quote)];
    match d.kind {
        KindDef::Spot => {}
        KindDef::Perpetual { settle } | KindDef::Future { settle, .. } | KindDef::Option { settle, .. } => v.push(asset_def(ex, settle)),
    }
    if let UnitDef::Asset(a) = d.unit {
        v.push(asset_def(ex, a));
    }
    v
}

pub struct IndexTables;

impl Check for IndexTables {
    type Case = IndexCase;
    const NAME: &'static str = "index_tables";

    fn normalise(mut case: IndexCase) -> IndexCase {
        // keep duplicates (they are part of the domain) but bound selectors and fix base == quote
        let fixed = crate::props::world::normalise_defs(case.defs.clone(), false);
        let mut defs = fixed.clone();
        // re-introduce up to 3 exact duplicates, as the generator does
        for (k, _) in case.defs.iter().enumerate().take(3) {
            if case.order_b.get(k).is_some_and(|x| x % 3 == 0) {
                defs.push(fixed[k % fixed.len()]);
            }
        }
        case.defs = defs;
        case
    }


    fn strategy(tier: Tier) -> BoxedStrategy<IndexCase> {
        let max = match tier {
            Tier::Quick => 10usize,
            Tier::Thorough => 16usize,
        };
        (1u8..=4)
            .prop_flat_map(move |n_ex| {
                (
                    prop::collection::vec(instrument_def(n_ex), 0..=max),
                    prop::collection::vec(any::<u16>(), 0..4), // indices of definitions to duplicate
                )
            })
            .prop_flat_map(|(defs, dups)| {
                let mut all = defs.clone();
                for d in dups {
                    if !defs.is_empty() {
                        all.push(defs[((d as usize) * defs.len()) >> 16]);
                    }
                }
                let n = all.len();
                (Just(all), prop::collection::vec(any::<u16>(), n), prop::collection::vec(any::<u16>(), n), any::<u8>())
            })
            .prop_map(|(defs, order_b, order_c, mock_mask)| IndexCase { defs, order_b, order_c, mock_mask })
            .boxed()
    }

    fn eval(case: &IndexCase) -> CaseReport {
        let mut rep = CaseReport::new();
        macro_rules! bad {
            ($sig:expr, $($fmt:tt)+) => {{ rep.fail($sig, format!($($fmt)+)); return rep; }};
        }
        let instruments_a: Vec<Instrument<ExchangeId, Asset>> = case.defs.iter().map(|d| d.to_instrument()).collect();
        let indexed = IndexedInstruments::new(instruments_a.clone());

        // ---- independent expectation -----------------------------------------------------------
        let exp_exchanges: BTreeSet<ExchangeId> = case.defs.iter().map(|d| d.exchange_id()).collect();
        let exp_defs: BTreeSet<InstrumentDef> = case.defs.iter().copied().collect();
        let exp_assets: BTreeSet<(ExchangeId, Asset)> = case.defs.iter().flat_map(|d| assets_of(d).into_iter().map(|a| (d.exchange_id(), a))).collect();

        // ---- 1/2: dense keys, uniqueness, completeness -----------------------------------------
        for (i, e) in indexed.exchanges().iter().enumerate() {
            if e.key != ExchangeIndex(i) {
                bad!("exchange-key-not-position", "exchange at position {i} has key {:?}", e.key);
            }
        }
        for (i, a) in indexed.assets().iter().enumerate() {
            if a.key != AssetIndex(i) {
                bad!("asset-key-not-position", "asset at position {i} has key {:?}", a.key);
            }
        }
        for (i, ins) in indexed.instruments().iter().enumerate() {
            if ins.key != InstrumentIndex(i) {
                bad!("instrument-key-not-position", "instrument at position {i} has key {:?}", ins.key);
            }
        }
        let got_exchanges: Vec<ExchangeId> = indexed.exchanges().iter().map(|e| e.value).collect();
        if got_exchanges.iter().collect::<BTreeSet<_>>().len() != got_exchanges.len() || got_exchanges.iter().copied().collect::<BTreeSet<_>>() != exp_exchanges {
            bad!("exchange-set", "indexed exchanges {got_exchanges:?} != distinct exchanges of the definitions {exp_exchanges:?}");
        }
        let got_assets: Vec<(ExchangeId, Asset)> = indexed.assets().iter().map(|a| (a.value.exchange, a.value.asset.clone())).collect();
        if got_assets.iter().collect::<BTreeSet<_>>().len() != got_assets.len() || got_assets.iter().cloned().collect::<BTreeSet<_>>() != exp_assets {
            bad!("asset-set", "indexed assets {got_assets:?} != distinct exchange-assets of the definitions {exp_assets:?}");
        }
        let got_names: Vec<InstrumentNameInternal> = indexed.instruments().iter().map(|i| i.value.name_internal.clone()).collect();
        let exp_names: BTreeSet<InstrumentNameInternal> = exp_defs.iter().map(|d| InstrumentNameInternal::new(d.name_internal())).collect();
        if got_names.len() != exp_defs.len() || got_names.iter().cloned().collect::<BTreeSet<_>>() != exp_names {
            bad!("instrument-set", "indexed instruments {got_names:?} != distinct definitions {exp_names:?}");
        }

        // ---- 3: lookups are mutual inverses ----------------------------------------------------
        for e in indexed.exchanges() {
            if indexed.find_exchange_index(e.value).ok() != Some(e.key) || indexed.find_exchange(e.key).ok() != Some(e.value) {
                bad!("exchange-lookup-not-inverse", "exchange {:?}: find_exchange_index={:?} find_exchange={:?}", e, indexed.find_exchange_index(e.value), indexed.find_exchange(e.key));
            }
        }
        for a in indexed.assets() {
            let by_name = indexed.find_asset_index(a.value.exchange, &a.value.asset.name_internal);
            let by_index = indexed.find_asset(a.key);
            if by_name.as_ref().ok() != Some(&a.key) || by_index.as_ref().ok() != Some(&&a.value) {
                bad!("asset-lookup-not-inverse", "asset {a:?}: find_asset_index={by_name:?} find_asset={by_index:?}");
            }
        }
        for ins in indexed.instruments() {
            let by_name = indexed.find_instrument_index(ins.value.exchange.value, &ins.value.name_internal);
            let by_index = indexed.find_instrument(ins.key);
            if by_name.as_ref().ok() != Some(&ins.key) || by_index.as_ref().ok() != Some(&&ins.value) {
                bad!("instrument-lookup-not-inverse", "instrument {:?}: find_instrument_index={by_name:?} find_instrument is_ok={}", ins.key, by_index.is_ok());
            }
        }
        // absent keys
        for ex in EXCHANGES.iter().filter(|e| !exp_exchanges.contains(e)) {
            if indexed.find_exchange_index(*ex).is_ok() {
                bad!("absent-exchange-found", "exchange {ex} is not in the collection but has an index");
            }
        }
        if indexed.find_exchange(ExchangeIndex(indexed.exchanges().len())).is_ok()
            || indexed.find_asset(AssetIndex(indexed.assets().len())).is_ok()
            || indexed.find_instrument(InstrumentIndex(indexed.instruments().len())).is_ok()
        {
            bad!("out-of-range-index-found", "an index equal to the table length resolved");
        }
        for ex in &exp_exchanges {
            for name in ASSETS {
                let present = exp_assets.iter().any(|(e, a)| e == ex && a.name_internal == AssetNameInternal::new(name));
                if indexed.find_asset_index(*ex, &AssetNameInternal::new(name)).is_ok() != present {
                    bad!("asset-presence", "find_asset_index({ex},{name}) is_ok != {present}");
                }
            }
        }
        for d in &exp_defs {
            // an instrument is only found under its own exchange
            for ex in &exp_exchanges {
                let found = indexed.find_instrument_index(*ex, &InstrumentNameInternal::new(d.name_internal())).is_ok();
                if found != (*ex == d.exchange_id()) {
                    bad!("instrument-presence", "find_instrument_index({ex},{}) is_ok={found}", d.name_internal());
                }
            }
        }

        // ---- 4: every reference resolves to the entry it was defined with ----------------------
        for d in &exp_defs {
            let name = InstrumentNameInternal::new(d.name_internal());
            let Ok(idx) = indexed.find_instrument_index(d.exchange_id(), &name) else {
                bad!("instrument-missing", "definition {d:?} has no index");
            };
            let ins = &indexed.instruments()[idx.index()].value;
            let src = d.to_instrument();
            let exch = &indexed.exchanges()[ins.exchange.key.index()];
            if exch.value != d.exchange_id() || ins.exchange.value != d.exchange_id() {
                bad!("exchange-reference", "instrument {name} references exchange {:?}/{:?}, defined on {}", ins.exchange, exch, d.exchange_id());
            }
            let resolve = |k: AssetIndex| indexed.assets()[k.index()].value.clone();
            let want = |a: &Asset| ExchangeAsset { exchange: d.exchange_id(), asset: a.clone() };
            if resolve(ins.underlying.base) != want(&src.underlying.base) || resolve(ins.underlying.quote) != want(&src.underlying.quote) {
                bad!("underlying-reference", "instrument {name}: underlying resolves to {:?}/{:?}, defined with {:?}", resolve(ins.underlying.base), resolve(ins.underlying.quote), src.underlying);
            }
            match (ins.kind.settlement_asset(), src.kind.settlement_asset()) {
                (None, None) => {}
                (Some(k), Some(a)) if resolve(*k) == want(a) => {}
                (got, want_) => bad!("settlement-reference", "instrument {name}: settlement asset {:?} vs defined {:?}", got.map(|k| resolve(*k)), want_),
            }
            if ins.kind.contract_size() != src.kind.contract_size() || std::mem::discriminant(&ins.kind) != std::mem::discriminant(&map_kind_tag(&src.kind, &ins.kind)) {
                bad!("kind-changed", "instrument {name}: kind {:?} vs defined {:?}", ins.kind, src.kind);
            }
            match (&ins.spec, &src.spec) {
                (None, None) => {}
                (Some(s), Some(t)) => {
                    let ok = match (&s.quantity.unit, &t.quantity.unit) {
                        (OrderQuantityUnits::Asset(k), OrderQuantityUnits::Asset(a)) => resolve(*k) == want(a),
                        (OrderQuantityUnits::Contract, OrderQuantityUnits::Contract) | (OrderQuantityUnits::Quote, OrderQuantityUnits::Quote) => true,
                        _ => false,
                    };
                    if !ok || s.price != t.price || s.notional != t.notional || s.quantity.min != t.quantity.min {
                        bad!("spec-reference", "instrument {name}: spec {:?} vs defined {:?}", s, t);
                    }
                }
                _ => bad!("spec-reference", "instrument {name}: spec presence differs"),
            }
            if ins.name_exchange != src.name_exchange || ins.quote != src.quote {
                bad!("instrument-fields", "instrument {name}: fields differ from definition");
            }
        }

        // ---- 5/6: insertion-order independence, builder == new ---------------------------------
        let b = IndexedInstruments::new(permuted(&instruments_a, &case.order_b));
        let c = permuted(&instruments_a, &case.order_c).into_iter().fold(IndexedInstruments::builder(), |bld, i| bld.add_instrument(i)).build();
        if indexed != b || indexed != c {
            bad!("insertion-order-dependence", "indexing the same definitions in another order gives different tables");
        }

        // ---- 7: derived engine tables ----------------------------------------------------------
        let state = world::engine_state(&indexed, TradingState::Disabled);
        if state.instruments.0.len() != indexed.instruments().len() || state.assets.0.len() != indexed.assets().len() || state.connectivity.exchanges.len() != indexed.exchanges().len() {
            bad!("engine-table-sizes", "engine state tables have {}/{}/{} entries, index has {}/{}/{}",
                state.instruments.0.len(), state.assets.0.len(), state.connectivity.exchanges.len(),
                indexed.instruments().len(), indexed.assets().len(), indexed.exchanges().len());
        }
        for ins in indexed.instruments() {
            let st = state.instruments.instrument_index(&ins.key);
            if st.key != ins.key
                || st.instrument.name_internal != ins.value.name_internal
                || st.instrument.name_exchange != ins.value.name_exchange
                || st.instrument.exchange != ins.value.exchange.key
                || st.instrument.underlying != ins.value.underlying
                || st.instrument.kind != ins.value.kind
            {
                bad!("engine-instrument-table", "engine instrument state at {:?} holds {:?}/{:?}, index says {}", ins.key, st.key, st.instrument.name_internal, ins.value.name_internal);
            }
            if state.instruments.instrument(&ins.value.name_internal).key != ins.key {
                bad!("engine-instrument-by-name", "engine instrument state by name {} has key {:?}", ins.value.name_internal, state.instruments.instrument(&ins.value.name_internal).key);
            }
        }
        let empty_assets = generate_empty_indexed_asset_states(&indexed);
        for a in indexed.assets() {
            for (which, table) in [("engine-state", &state.assets), ("generate_empty", &empty_assets)] {
                let st = table.asset_index(&a.key);
                let (k, _) = table.0.get_index(a.key.index()).unwrap();
                if st.asset != a.value.asset || k.exchange != a.value.exchange || k.asset != a.value.asset.name_internal {
                    bad!("engine-asset-table", "{which}: asset state at {:?} holds {:?} (key {:?}), index says {:?}", a.key, st.asset, k, a.value);
                }
            }
        }
        // balances handed to the state builder land at exactly the index of the (exchange, asset) they name
        {
            use barter_execution::balance::Balance;
            use barter_instrument::{Keyed, asset::ExchangeAsset};
            let picked = |i: usize| (case.mock_mask.rotate_left(3) >> (i % 8)) & 1 == 1;
            let seeded: Vec<Keyed<ExchangeAsset<barter_instrument::asset::name::AssetNameInternal>, Balance>> = indexed
                .assets()
                .iter()
                .filter(|a| picked(a.key.index()))
                .map(|a| Keyed::new(ExchangeAsset::new(a.value.exchange, a.value.asset.name_internal.clone()), Balance::new(Decimal::from(1000 + a.key.index() as u32), Decimal::from(500 + a.key.index() as u32))))
                .collect();
            let n_seeded = seeded.len();
            let built = barter::engine::state::EngineState::builder(&indexed, barter::engine::state::global::DefaultGlobalData, barter::engine::state::instrument::data::DefaultInstrumentMarketData::default)
                .time_engine_start(crate::props::gens::ts(crate::props::gens::T0_MS))
                .trading_state(TradingState::Disabled)
                .balances(seeded)
                .build();
            for a in indexed.assets() {
                let held = built.assets.asset_index(&a.key).balance.as_ref().map(|b| (b.value.total, b.value.free));
                let want = picked(a.key.index()).then(|| (Decimal::from(1000 + a.key.index() as u32), Decimal::from(500 + a.key.index() as u32)));
                if held != want {
                    bad!("seeded-balance-index", "state built with a balance for each of {n_seeded} (exchange, asset) pairs: asset {:?} ({} on {}) holds {held:?}, seeded {want:?}", a.key, a.value.asset.name_internal, a.value.exchange);
                }
            }
            rep.class_if(n_seeded > 0 && indexed.assets().iter().any(|a| picked(a.key.index()) && indexed.assets().iter().any(|b| b.key != a.key && b.value.asset.name_internal == a.value.asset.name_internal)), "seeded_balance_for_asset_name_shared_between_exchanges");
        }
        let empty_conn = generate_empty_indexed_connectivity_states(&indexed);
        for e in indexed.exchanges() {
            for (which, table) in [("engine-state", &state.connectivity), ("generate_empty", &empty_conn)] {
                let got = table.exchanges.get_index(e.key.index()).map(|(k, _)| *k);
                if got != Some(e.value) {
                    bad!("engine-connectivity-table", "{which}: connectivity at {:?} is for {got:?}, index says {}", e.key, e.value);
                }
                // index- and id-addressed accessors agree
                if !std::ptr::eq(table.connectivity_index(&e.key), table.connectivity(&e.value)) {
                    bad!("engine-connectivity-accessors", "{which}: connectivity_index({:?}) and connectivity({}) differ", e.key, e.value);
                }
            }
        }

        // ---- 8: execution-link table -----------------------------------------------------------
        let mut mocked: Vec<ExchangeId> = Vec::new();
        let mut builder = ExecutionBuilder::new(&indexed);
        for (bit, ex) in EXCHANGES.iter().enumerate() {
            let wants = case.mock_mask & (1 << bit) != 0 && exp_exchanges.contains(ex);
            let all_spot = exp_defs.iter().filter(|d| d.exchange_id() == *ex).all(|d| d.kind == KindDef::Spot);
            if wants && all_spot {
                let config = MockExecutionConfig {
                    mocked_exchange: *ex,
                    initial_state: UnindexedAccountSnapshot { exchange: *ex, balances: vec![], instruments: vec![] },
                    latency_ms: 0,
                    fees_percent: Decimal::ZERO,
                };
                builder = match builder.add_mock(config, HistoricalClock::new(crate::props::gens::ts(crate::props::gens::T0_MS))) {
                    Ok(b) => b,
                    Err(e) => bad!("add-mock-failed", "adding a mock link for {ex} failed: {e}"),
                };
                mocked.push(*ex);
            }
        }
        // per-exchange link tables (what every execution link translates with): at each index the
        // entry of exactly the entity with that index, and nothing of another exchange
        for ex in indexed.exchanges() {
            let map = match barter_execution::map::generate_execution_instrument_map(&indexed, ex.value) {
                Ok(m) => m,
                Err(e) => bad!("link-map-failed", "link table of {} cannot be built: {e}", ex.value),
            };
            if map.exchange.key != ex.key || map.exchange.value != ex.value {
                bad!("link-map-exchange", "link table of {} carries exchange {:?}", ex.value, map.exchange);
            }
            for a in indexed.assets() {
                let own = a.value.exchange == ex.value;
                let got = map.find_asset_name_exchange(a.key).ok().cloned();
                if got != own.then(|| a.value.asset.name_exchange.clone()) {
                    bad!("link-map-asset", "link table of {}: asset index {} ({} on {}) resolves to {got:?}", ex.value, a.key.index(), a.value.asset.name_exchange, a.value.exchange);
                }
                if own && map.find_asset_index(&a.value.asset.name_exchange).ok() != Some(a.key) {
                    bad!("link-map-asset", "link table of {}: asset name {} resolves to {:?}, that asset is index {}", ex.value, a.value.asset.name_exchange, map.find_asset_index(&a.value.asset.name_exchange), a.key.index());
                }
            }
            for i in indexed.instruments() {
                let own = i.value.exchange.value == ex.value;
                let got = map.find_instrument_name_exchange(i.key).ok().cloned();
                if got != own.then(|| i.value.name_exchange.clone()) {
                    bad!("link-map-instrument", "link table of {}: instrument index {} ({} on {}) resolves to {got:?}", ex.value, i.key.index(), i.value.name_exchange, i.value.exchange.value);
                }
                if own && map.find_instrument_index(&i.value.name_exchange).ok() != Some(i.key) {
                    bad!("link-map-instrument", "link table of {}: instrument name {} resolves to {:?}, that instrument is index {}", ex.value, i.value.name_exchange, map.find_instrument_index(&i.value.name_exchange), i.key.index());
                }
            }
        }
        let build = builder.build();
        let links: Vec<(ExchangeId, bool)> = (&build.execution_tx_map).into_iter().map(|(e, tx)| (*e, tx.is_some())).collect();
        let want_links: Vec<(ExchangeId, bool)> = indexed.exchanges().iter().map(|e| (e.value, mocked.contains(&e.value))).collect();
        if links != want_links {
            bad!("execution-link-table", "execution link table {links:?}, expected one entry per exchange index {want_links:?}");
        }

        let shared_name = ASSETS.iter().any(|n| exp_assets.iter().filter(|(_, a)| a.name_internal == AssetNameInternal::new(*n)).map(|(e, _)| e).collect::<BTreeSet<_>>().len() >= 2);
        let has_dup = exp_defs.len() < case.defs.len();
        rep.class_if(exp_exchanges.len() >= 2, "two_or_more_exchanges");
        rep.class_if(has_dup, "duplicate_definition");
        rep.class_if(shared_name, "asset_name_shared_between_exchanges");
        rep.class_if(exp_defs.iter().any(|d| d.kind != KindDef::Spot), "settlement_asset");
        rep.class_if(exp_defs.iter().any(|d| matches!(d.unit, UnitDef::Asset(_))), "quantity_unit_asset");
        rep.class_if(!mocked.is_empty(), "mock_link_added");
        rep.class_if(case.defs.is_empty(), "empty_collection");
        rep.nontrivial = exp_exchanges.len() >= 2 && has_dup && shared_name;
        rep
    }
}

/// helper so that `discriminant` comparison is between like-typed values
fn map_kind_tag<A, B: Clone>(src: &barter_instrument::instrument::kind::InstrumentKind<A>, like: &barter_instrument::instrument::kind::InstrumentKind<B>) -> barter_instrument::instrument::kind::InstrumentKind<B> {
    use barter_instrument::instrument::kind::InstrumentKind::*;
    match (src, like) {
        (Spot, _) => Spot,
        (Perpetual(_), Perpetual(l)) => Perpetual(l.clone()),
        (Future(_), Future(l)) => Future(l.clone()),
        (Option(_), Option(l)) => Option(l.clone()),
        // mismatch: return something of a different discriminant than `like`
        (_, Spot) => like.clone(),
        (_, _) => Spot,
    }
}

pub fn run(ctx: &mut Ctx) {
    ctx.rule = "index_tables: 0..10|16 instrument definitions over 1..4 exchanges of a 5-exchange pool and a 7-asset pool (spot/perpetual/future/option with settlement assets, optional spec with quote/contract/asset quantity units), plus up to 3 exact duplicates, indexed in 3 insertion orders (new, new, builder) and with mock execution links for a generated subset of the all-spot exchanges. non-trivial = >= 2 exchanges AND >= 1 duplicate definition AND >= 1 internal asset name used on two exchanges; distinct by hash of the case.".into();
    ctx.assumptions = vec![
        "InstrumentNameInternal is unique per distinct definition (documented: unique across all exchanges); exchange instrument names are unique inside one exchange".into(),
        "one exchange-side name per (exchange, internal asset name)".into(),
        "mock execution links are only added for exchanges whose instruments are all spot (MockExchange documents no other kind)".into(),
    ];
    ctx.run_regressions::<IndexTables>();
    ctx.run::<IndexTables>(ctx.tier.pick(50_000, 800_000));
}

pub fn replay(ctx: &mut Ctx, doc: &Value) -> bool {
    ctx.replay::<IndexTables>(doc)
}
