//! Shared machinery: seeded proptest driver, class/non-triviality accounting, known-finding
//! handling, replay files and evidence writing.
//!
//! A property module defines one or more [`Check`]s (generator + oracle over one case type). The
//! driver runs each check for a fixed number of generated cases (fixed work, never a time quota),
//! optionally split over worker threads with seed-derived sub-seeds, shrinks the first failure and
//! writes it as a replay file.

use proptest::{
    strategy::{BoxedStrategy, Strategy, ValueTree},
    test_runner::{Config, RngAlgorithm, TestCaseError, TestError, TestRng, TestRunner},
};
use serde::{Serialize, de::DeserializeOwned};
use serde_json::{Value, json};
use std::{
    collections::{BTreeMap, HashSet},
    fmt::Debug,
    hash::{Hash, Hasher},
    panic::{AssertUnwindSafe, catch_unwind},
    path::PathBuf,
    sync::{
        Mutex,
        atomic::{AtomicBool, Ordering},
    },
    time::Instant,
};

pub const VERIF_ROOT: &str = "/verif";

#[derive(Debug, Clone, Copy, PartialEq, Eq)]
pub enum Tier {
    Quick,
    Thorough,
}

impl Tier {
    pub fn name(self) -> &'static str {
        match self {
            Tier::Quick => "quick",
            Tier::Thorough => "thorough",
        }
    }
    /// Pick a case count by tier.
    pub fn pick(self, quick: u32, thorough: u32) -> u32 {
        match self {
            Tier::Quick => quick,
            Tier::Thorough => thorough,
        }
    }
}

/// Outcome of evaluating the oracle on one case.
#[derive(Debug, Clone)]
pub enum Outcome {
    Pass,
    /// The property is violated. `sig` is a stable signature of *what* failed (used to match
    /// known findings); `msg` is the human readable detail.
    Fail { sig: String, msg: String },
}

/// Per-case report handed back by a check's oracle.
#[derive(Debug, Clone)]
pub struct CaseReport {
    pub outcome: Outcome,
    /// Non-trivial by the check's stated rule.
    pub nontrivial: bool,
    /// Generator class labels this case falls into (for the histogram).
    pub classes: Vec<&'static str>,
    /// Known findings met (and set aside by construction) while evaluating this case.
    pub known_hits: Vec<String>,
}

impl CaseReport {
    pub fn new() -> Self {
        Self {
            outcome: Outcome::Pass,
            nontrivial: false,
            classes: Vec::new(),
            known_hits: Vec::new(),
        }
    }
    pub fn class(&mut self, c: &'static str) {
        if !self.classes.contains(&c) {
            self.classes.push(c);
        }
    }
    pub fn class_if(&mut self, cond: bool, c: &'static str) {
        if cond {
            self.class(c);
        }
    }
    pub fn fail(&mut self, sig: impl Into<String>, msg: impl Into<String>) {
        if matches!(self.outcome, Outcome::Pass) {
            self.outcome = Outcome::Fail {
                sig: sig.into(),
                msg: msg.into(),
            };
        }
    }
    pub fn failed(&self) -> bool {
        matches!(self.outcome, Outcome::Fail { .. })
    }
    pub fn known(&mut self, sig: impl Into<String>) {
        let sig = sig.into();
        if !self.known_hits.contains(&sig) {
            self.known_hits.push(sig);
        }
    }
}

impl Default for CaseReport {
    fn default() -> Self {
        Self::new()
    }
}

/// `ensure!(report, cond, "sig", "fmt", args..)` – record a failure (first one wins) and return.
#[macro_export]
macro_rules! ensure {
    ($rep:expr, $cond:expr, $sig:expr, $($fmt:tt)+) => {
        if !($cond) {
            $rep.fail($sig, format!($($fmt)+));
            return $rep;
        }
    };
}

/// One generated check: a generator and an oracle over `Case`.
pub trait Check: 'static {
    type Case: Debug + Clone + Serialize + DeserializeOwned + Send + 'static;
    /// Name of the check (unique inside the property), used in replay files.
    const NAME: &'static str;
    fn strategy(tier: Tier) -> BoxedStrategy<Self::Case>;
    fn eval(case: &Self::Case) -> CaseReport;
    /// Project an arbitrary decoded case (fuzzer bytes -> serde) into the sound input domain the
    /// strategy generates from. Identity for cases whose interpretation is already total.
    fn normalise(case: Self::Case) -> Self::Case {
        case
    }
    /// false for a check that runs on real threads (the harness does not own the schedule): a failure
    /// of such a check is reported only if it shows again when the very same case is evaluated again
    /// (up to three more times); one that never shows again is counted as class
    /// `failure_observed_once_not_reproduced`, noted on stderr, and the search goes on. The replay
    /// file of a reported violation must fail when replayed; a once-only outcome cannot.
    const OWNS_SCHEDULE: bool = true;
}

#[derive(Debug, Clone, Serialize, serde::Deserialize)]
pub struct KnownFinding {
    pub status: String, // "known" | "fixed"
    pub property: String,
    #[serde(default)]
    pub signature: String,
    #[serde(default)]
    pub commit: String,
    pub what: String,
}

#[derive(Debug, Clone, Serialize, serde::Deserialize, Default)]
pub struct KnownFindings {
    pub findings: Vec<KnownFinding>,
}

impl KnownFindings {
    pub fn load() -> Self {
        let path = format!("{VERIF_ROOT}/known_findings.json");
        match std::fs::read_to_string(&path) {
            Ok(s) => serde_json::from_str(&s).unwrap_or_else(|e| {
                eprintln!("INCONCLUSIVE: cannot parse {path}: {e}");
                std::process::exit(2)
            }),
            Err(_) => Self::default(),
        }
    }
    pub fn is_known(&self, property: &str, sig: &str) -> Option<&KnownFinding> {
        self.findings
            .iter()
            .find(|f| f.status == "known" && f.property == property && f.signature == sig)
    }
}

static KNOWN: std::sync::OnceLock<KnownFindings> = std::sync::OnceLock::new();

/// True when `known_findings.json` lists `sig` as a *known* (unrepaired) finding of `property`.
/// Oracles use it to set a listed finding aside by construction and keep checking behind it.
pub fn known_active(property: &str, sig: &str) -> bool {
    KNOWN.get_or_init(KnownFindings::load).is_known(property, sig).is_some()
}

#[derive(Debug, Default, Clone)]
struct CheckStats {
    evaluations: u64,
    nontrivial: u64,
    classes: BTreeMap<&'static str, u64>,
    distinct: HashSet<u64>,
    samples: Vec<Value>,
    known_hits: BTreeMap<String, u64>,
    exhaustive: bool,
}

#[derive(Debug, Clone)]
pub struct Failure {
    pub check: String,
    pub sig: String,
    pub msg: String,
    pub case: Value,
    pub replay_path: String,
}

pub struct Ctx {
    pub property: &'static str,
    pub tier: Tier,
    pub seed: u64,
    pub known: KnownFindings,
    pub started: Instant,
    stats: BTreeMap<String, CheckStats>,
    pub failures: Vec<Failure>,
    pub rule: String,
    pub assumptions: Vec<String>,
    pub notes: Vec<String>,
    pub extra: BTreeMap<String, Value>,
    pub threads: usize,
    pub replay_mode: bool,
    /// classes which must be non-empty for the run to be conclusive: (check, class)
    required: Vec<(String, &'static str)>,
}

fn hash_case<T: Serialize>(case: &T) -> u64 {
    let bytes = serde_json::to_vec(case).unwrap_or_default();
    let mut h = std::collections::hash_map::DefaultHasher::new();
    bytes.hash(&mut h);
    h.finish()
}

fn sub_seed(seed: u64, check: &str, worker: u64) -> [u8; 32] {
    // splitmix-style expansion of (seed, check, worker) into 32 bytes; pure function of its inputs
    let mut h = std::collections::hash_map::DefaultHasher::new();
    // DefaultHasher::new() uses fixed keys, so this is deterministic across processes
    seed.hash(&mut h);
    check.hash(&mut h);
    worker.hash(&mut h);
    let mut x = h.finish();
    let mut out = [0u8; 32];
    for chunk in out.chunks_mut(8) {
        x = x.wrapping_add(0x9E3779B97F4A7C15);
        let mut z = x;
        z = (z ^ (z >> 30)).wrapping_mul(0xBF58476D1CE4E5B9);
        z = (z ^ (z >> 27)).wrapping_mul(0x94D049BB133111EB);
        z ^= z >> 31;
        chunk.copy_from_slice(&z.to_le_bytes());
    }
    out
}

pub fn panic_message(p: Box<dyn std::any::Any + Send>) -> String {
    if let Some(s) = p.downcast_ref::<&str>() {
        s.to_string()
    } else if let Some(s) = p.downcast_ref::<String>() {
        s.clone()
    } else {
        "non-string panic".to_string()
    }
}

thread_local! {
    /// source file of the most recent panic on this thread (set by the panic hook)
    static LAST_PANIC_FILE: std::cell::RefCell<String> = const { std::cell::RefCell::new(String::new()) };
}

/// Signature given to a panic raised by the harness's own code (never a property violation).
pub const HARNESS_PANIC: &str = "harness-panic";

/// Install the panic hook: remembers where a panic came from, and stays silent unless
/// VERIF_LOUD_PANICS is set.
pub fn install_panic_hook() {
    static ONCE: std::sync::Once = std::sync::Once::new();
    ONCE.call_once(|| {
        let loud = std::env::var("VERIF_LOUD_PANICS").is_ok();
        let default = std::panic::take_hook();
        std::panic::set_hook(Box::new(move |info| {
            let file = info.location().map(|l| l.file().to_string()).unwrap_or_default();
            LAST_PANIC_FILE.with(|f| *f.borrow_mut() = file);
            if loud {
                default(info);
            }
        }));
    });
}

/// Evaluate a check's oracle, turning a panic of the code under test into a failure. A panic
/// raised inside the harness's own sources is a harness bug: it is reported with the
/// `harness-panic` signature, which the drivers treat as inconclusive, never as a violation.
pub fn eval_guarded<C: Check>(case: &C::Case) -> CaseReport {
    match catch_unwind(AssertUnwindSafe(|| C::eval(case))) {
        Ok(r) => r,
        Err(p) => {
            let mut r = CaseReport::new();
            let m = panic_message(p);
            let file = LAST_PANIC_FILE.with(|f| f.borrow().clone());
            if file.contains("/verif/harness/") || file.starts_with("src/") {
                r.fail(HARNESS_PANIC, format!("panic inside the harness ({file}): {m}"));
                return r;
            }
            // signature: panic + first 60 chars so distinct panics are distinguishable
            let short: String = m.chars().take(60).collect();
            r.fail(format!("panic:{short}"), format!("panic in code under test: {m}"));
            r
        }
    }
}

impl Ctx {
    pub fn new(property: &'static str, tier: Tier, seed: u64) -> Self {
        let threads = std::env::var("VERIF_THREADS")
            .ok()
            .and_then(|s| s.parse().ok())
            .unwrap_or_else(|| match tier {
                Tier::Quick => 8,
                Tier::Thorough => 16,
            });
        Self {
            property,
            tier,
            seed,
            known: KnownFindings::load(),
            started: Instant::now(),
            stats: BTreeMap::new(),
            failures: Vec::new(),
            rule: String::new(),
            assumptions: Vec::new(),
            notes: Vec::new(),
            extra: BTreeMap::new(),
            threads,
            replay_mode: false,
            required: Vec::new(),
        }
    }

    pub fn require_class<C: Check>(&mut self, class: &'static str) {
        self.required.push((C::NAME.to_string(), class));
    }

    fn merge(&mut self, name: &str, s: CheckStats) {
        let e = self.stats.entry(name.to_string()).or_default();
        e.evaluations += s.evaluations;
        e.nontrivial += s.nontrivial;
        for (k, v) in s.classes {
            *e.classes.entry(k).or_default() += v;
        }
        e.distinct.extend(s.distinct);
        for v in s.samples {
            if e.samples.len() < 4 {
                e.samples.push(v);
            }
        }
        for (k, v) in s.known_hits {
            *e.known_hits.entry(k).or_default() += v;
        }
        e.exhaustive |= s.exhaustive;
    }

    fn record(stats: &mut CheckStats, case_json: impl FnOnce() -> Value, h: u64, rep: &CaseReport) {
        stats.evaluations += 1;
        for c in &rep.classes {
            *stats.classes.entry(c).or_default() += 1;
        }
        for k in &rep.known_hits {
            *stats.known_hits.entry(k.clone()).or_default() += 1;
        }
        if rep.nontrivial {
            stats.nontrivial += 1;
            let fresh = stats.distinct.insert(h);
            if fresh && stats.samples.len() < 2 {
                stats.samples.push(case_json());
            }
        }
    }

    /// Run `cases` generated cases of check `C` (split over worker threads).
    pub fn run<C: Check>(&mut self, cases: u32) {
        if cases == 0 {
            return;
        }
        let workers = self.threads.max(1).min(cases as usize);
        let per = cases / workers as u32;
        let extra = cases % workers as u32;
        let tier = self.tier;
        let seed = self.seed;
        let property = self.property;
        let known = self.known.clone();
        let stop = AtomicBool::new(false);

        let results: Vec<(CheckStats, Option<(String, String, C::Case)>)> = std::thread::scope(|scope| {
            let handles: Vec<_> = (0..workers)
                .map(|w| {
                    let n = per + if (w as u32) < extra { 1 } else { 0 };
                    let stop = &stop;
                    let known = &known;
                    std::thread::Builder::new()
                        .stack_size(64 << 20)
                        .spawn_scoped(scope, move || {
                            run_worker::<C>(property, tier, seed, w as u64, n, stop, known)
                        })
                        .expect("spawn worker")
                })
                .collect();
            handles
                .into_iter()
                .map(|h| h.join().expect("worker thread panicked outside guarded eval"))
                .collect()
        });

        let mut reported = false;
        for (stats, fail) in results {
            self.merge(C::NAME, stats);
            if let Some((sig, msg, case)) = fail {
                // several workers may fail at once: report the first (lowest worker index) only
                if !reported {
                    reported = true;
                    self.push_failure::<C>(sig, msg, &case);
                }
            }
        }
    }

    /// Run check `C` over an explicitly enumerated (finite, complete) case space.
    pub fn run_enumerated<C: Check>(&mut self, label: &'static str, cases: impl Iterator<Item = C::Case>) {
        let mut stats = CheckStats {
            exhaustive: true,
            ..Default::default()
        };
        let mut first_fail: Option<(String, String, C::Case)> = None;
        for case in cases {
            let rep = eval_guarded::<C>(&case);
            let h = hash_case(&case);
            Self::record(&mut stats, || serde_json::to_value(&case).unwrap_or(Value::Null), h, &rep);
            *stats.classes.entry(label).or_default() += 1;
            if let Outcome::Fail { sig, msg } = rep.outcome {
                if self.known.is_known(self.property, &sig).is_some() {
                    *stats.known_hits.entry(sig).or_default() += 1;
                } else if first_fail.is_none() {
                    first_fail = Some((sig, msg, case));
                    break;
                }
            }
        }
        self.merge(C::NAME, stats);
        if let Some((sig, msg, case)) = first_fail {
            self.push_failure::<C>(sig, msg, &case);
        }
    }

    /// Run explicit regression cases (committed replay inputs) through check `C`.
    pub fn run_regressions<C: Check>(&mut self) {
        let dir = format!("{VERIF_ROOT}/regressions/{}", self.property);
        let Ok(rd) = std::fs::read_dir(&dir) else {
            return;
        };
        let mut paths: Vec<PathBuf> = rd.filter_map(|e| e.ok().map(|e| e.path())).collect();
        paths.sort();
        let mut n = 0u64;
        for p in paths {
            let Ok(s) = std::fs::read_to_string(&p) else { continue };
            let Ok(v) = serde_json::from_str::<Value>(&s) else { continue };
            if v.get("check").and_then(|c| c.as_str()) != Some(C::NAME) {
                continue;
            }
            let Ok(case) = serde_json::from_value::<C::Case>(v["case"].clone()) else {
                self.notes.push(format!("regression file {} no longer decodes; skipped", p.display()));
                continue;
            };
            n += 1;
            let rep = eval_guarded::<C>(&case);
            if let Outcome::Fail { sig, msg } = rep.outcome {
                if self.known.is_known(self.property, &sig).is_none() {
                    self.push_failure::<C>(sig, format!("regression {}: {msg}", p.display()), &case);
                }
            }
        }
        *self.extra.entry(format!("regressions_replayed_{}", C::NAME)).or_insert(json!(0)) = json!(n);
    }

    fn push_failure<C: Check>(&mut self, sig: String, msg: String, case: &C::Case) {
        let case_json = serde_json::to_value(case).unwrap_or(Value::Null);
        let dir = std::env::var("VERIF_REPLAY_DIR").unwrap_or_else(|_| format!("{VERIF_ROOT}/replays"));
        let _ = std::fs::create_dir_all(&dir);
        let path = format!("{dir}/{}-{}-{}-{}.json", self.property, C::NAME, self.seed, self.failures.len());
        let doc = json!({
            "property": self.property,
            "check": C::NAME,
            "seed": self.seed,
            "signature": sig,
            "message": msg,
            "case": case_json,
        });
        let _ = std::fs::write(&path, serde_json::to_string_pretty(&doc).unwrap());
        self.failures.push(Failure {
            check: C::NAME.to_string(),
            sig,
            msg,
            case: case_json,
            replay_path: path,
        });
    }

    /// Replay one saved case strictly (no shrinking, no known-finding suppression of *other* sigs).
    pub fn replay<C: Check>(&mut self, doc: &Value) -> bool {
        if doc.get("check").and_then(|c| c.as_str()) != Some(C::NAME) {
            return false;
        }
        let case: C::Case = match serde_json::from_value(doc["case"].clone()) {
            Ok(c) => c,
            Err(e) => {
                eprintln!("INCONCLUSIVE: replay file does not decode as {}: {e}", C::NAME);
                std::process::exit(2);
            }
        };
        let rep = eval_guarded::<C>(&case);
        let mut stats = CheckStats::default();
        let h = hash_case(&case);
        Self::record(&mut stats, || serde_json::to_value(&case).unwrap(), h, &rep);
        if stats.samples.is_empty() {
            stats.samples.push(serde_json::to_value(&case).unwrap());
        }
        self.merge(C::NAME, stats);
        if let Outcome::Fail { sig, msg } = rep.outcome {
            if self.known.is_known(self.property, &sig).is_some() {
                let e = self.stats.get_mut(C::NAME).unwrap();
                *e.known_hits.entry(sig).or_default() += 1;
            } else {
                self.push_failure::<C>(sig, msg, &case);
            }
        }
        true
    }

    /// Finish: print verdict lines, write evidence, return process exit code.
    pub fn finish(mut self) -> i32 {
        let wall = self.started.elapsed().as_secs_f64();
        let mut evaluations = 0u64;
        let mut distinct = 0u64;
        let mut samples: Vec<Value> = Vec::new();
        let mut per_check = serde_json::Map::new();
        let mut known_total: BTreeMap<String, u64> = BTreeMap::new();
        let mut any_exhaustive = false;
        for (name, s) in &self.stats {
            evaluations += s.evaluations;
            distinct += s.distinct.len() as u64;
            for v in &s.samples {
                if samples.len() < 6 {
                    samples.push(json!({"check": name, "case": v}));
                }
            }
            for (k, v) in &s.known_hits {
                *known_total.entry(k.clone()).or_default() += v;
            }
            any_exhaustive |= s.exhaustive;
            per_check.insert(
                name.clone(),
                json!({
                    "evaluations": s.evaluations,
                    "nontrivial": s.nontrivial,
                    "distinct_nontrivial": s.distinct.len(),
                    "classes": s.classes,
                    "known_finding_hits_set_aside": s.known_hits,
                    "has_exhaustive_subspace": s.exhaustive,
                }),
            );
        }

        // Known findings: print one line per listed known finding that was met.
        for (sig, n) in &known_total {
            if let Some(k) = self.known.is_known(self.property, sig) {
                println!(
                    "KNOWN-FINDING: property={} {} [signature={} met {} times, set aside]",
                    self.property, k.what, sig, n
                );
            }
        }

        let mut inconclusive: Vec<String> = Vec::new();
        for (check, class) in &self.required {
            let n = self
                .stats
                .get(check)
                .and_then(|s| s.classes.get(class).copied())
                .unwrap_or(0);
            if n == 0 && self.stats.contains_key(check) {
                inconclusive.push(format!("required class `{class}` of check `{check}` was never generated"));
            }
        }

        // a panic inside the harness itself is a harness bug: inconclusive, never a violation
        let harness_bugs: Vec<Failure> = self.failures.iter().filter(|f| f.sig == HARNESS_PANIC).cloned().collect();
        self.failures.retain(|f| f.sig != HARNESS_PANIC);
        for f in &harness_bugs {
            inconclusive.push(format!("harness panic in check `{}` (replay {}): {}", f.check, f.replay_path, f.msg));
        }
        let violations = self.failures.len();
        for f in &self.failures {
            println!("VIOLATION property={} replay={}", self.property, f.replay_path);
            println!("  check={} signature={} :: {}", f.check, f.sig, f.msg);
        }

        if samples.is_empty() {
            samples.push(json!("no non-trivial case was generated in this run"));
        }
        let mut coverage = serde_json::Map::new();
        coverage.insert("evaluations".into(), json!(evaluations));
        coverage.insert("distinct_nontrivial".into(), json!(distinct));
        coverage.insert("rule".into(), json!(self.rule));
        coverage.insert("samples".into(), json!(samples));
        coverage.insert("per_check".into(), Value::Object(per_check));
        coverage.insert("exhaustive".into(), json!(false));
        coverage.insert("has_exhaustive_subspaces".into(), json!(any_exhaustive));
        coverage.insert("threads".into(), json!(self.threads));
        if !self.notes.is_empty() {
            coverage.insert("notes".into(), json!(self.notes));
        }
        for (k, v) in std::mem::take(&mut self.extra) {
            coverage.insert(k, v);
        }
        if !self.failures.is_empty() {
            coverage.insert(
                "failures".into(),
                json!(self.failures.iter().map(|f| json!({"check": f.check, "signature": f.sig, "message": f.msg, "replay": f.replay_path})).collect::<Vec<_>>()),
            );
        }
        let evidence = json!({
            "property_id": self.property,
            "tier": self.tier.name(),
            "seed": self.seed,
            "level": "exploration",
            "coverage": Value::Object(coverage),
            "assumptions": self.assumptions,
            "wall_s": (wall * 1000.0).round() / 1000.0,
            "violations": violations,
        });
        // VERIF_EVIDENCE_DIR diverts the evidence (used by the mutation helper so that a run on a
        // deliberately broken tree never overwrites /verif/evidence)
        let dir = std::env::var("VERIF_EVIDENCE_DIR").unwrap_or_else(|_| format!("{VERIF_ROOT}/evidence"));
        let _ = std::fs::create_dir_all(&dir);
        let path = format!("{dir}/{}.json", self.property);
        if self.replay_mode {
            // a replay is not a coverage run: leave the evidence file alone
            if violations > 0 {
                return 1;
            }
            println!("OK property={} replay: case passes", self.property);
            return 0;
        }
        if let Err(e) = std::fs::write(&path, serde_json::to_string_pretty(&evidence).unwrap()) {
            eprintln!("INCONCLUSIVE: cannot write evidence {path}: {e}");
            return 2;
        }

        if violations > 0 {
            return 1;
        }
        if !inconclusive.is_empty() {
            for i in inconclusive {
                println!("INCONCLUSIVE property={} {}", self.property, i);
            }
            return 2;
        }
        println!(
            "OK property={} tier={} seed={} evaluations={} distinct_nontrivial={} wall_s={:.1}",
            self.property,
            self.tier.name(),
            self.seed,
            evaluations,
            distinct,
            wall
        );
        0
    }
}

fn run_worker<C: Check>(
    property: &str,
    tier: Tier,
    seed: u64,
    worker: u64,
    cases: u32,
    stop: &AtomicBool,
    known: &KnownFindings,
) -> (CheckStats, Option<(String, String, C::Case)>) {
    let stats = Mutex::new(CheckStats::default());
    if cases == 0 {
        return (stats.into_inner().unwrap(), None);
    }
    let config = Config {
        cases,
        failure_persistence: None,
        max_shrink_iters: 20_000,
        max_global_rejects: 65_536,
        max_local_rejects: 1_000_000,
        ..Config::default()
    };
    let rng = TestRng::from_seed(RngAlgorithm::ChaCha, &sub_seed(seed, C::NAME, worker));
    let mut runner = TestRunner::new_with_rng(config, rng);
    let strategy = C::strategy(tier);
    // once a failure was returned to proptest it re-runs the closure while shrinking: stop counting
    let shrinking = AtomicBool::new(false);
    let first_sig: Mutex<Option<String>> = Mutex::new(None);
    let last_fail: Mutex<Option<(String, String)>> = Mutex::new(None);

    let result = runner.run(&strategy, |case| {
        if stop.load(Ordering::Relaxed) && !shrinking.load(Ordering::Relaxed) {
            // another worker found a failure: finish quickly (cases pass without evaluation)
            return Ok(());
        }
        let rep = eval_guarded::<C>(&case);
        let is_shrinking = shrinking.load(Ordering::Relaxed);
        if !is_shrinking {
            let h = hash_case(&case);
            let mut s = stats.lock().unwrap();
            Ctx::record(&mut s, || serde_json::to_value(&case).unwrap_or(Value::Null), h, &rep);
        }
        match rep.outcome {
            Outcome::Pass => Ok(()),
            Outcome::Fail { sig, msg } => {
                if known.is_known(property, &sig).is_some() {
                    // a listed known finding: set aside (counted), keep searching behind it
                    if !is_shrinking {
                        let mut s = stats.lock().unwrap();
                        *s.known_hits.entry(sig).or_default() += 1;
                    }
                    return Ok(());
                }
                if !C::OWNS_SCHEDULE && !is_shrinking {
                    let again = (0..3).any(|_| matches!(eval_guarded::<C>(&case).outcome, Outcome::Fail { .. }));
                    if !again {
                        let mut s = stats.lock().unwrap();
                        *s.classes.entry("failure_observed_once_not_reproduced").or_default() += 1;
                        eprintln!("NOTE check={} a failure was observed once and did not show again in 3 re-evaluations of the same case (real threads: the schedule is not the harness's): {sig} :: {}", C::NAME, msg.chars().take(300).collect::<String>());
                        return Ok(());
                    }
                }
                // while shrinking only accept failures with the same signature as the first one,
                // so the minimised case reproduces *this* violation
                let mut fs = first_sig.lock().unwrap();
                match &*fs {
                    None => {
                        *fs = Some(sig.clone());
                    }
                    Some(f) if *f != sig => return Ok(()),
                    _ => {}
                }
                shrinking.store(true, Ordering::Relaxed);
                stop.store(true, Ordering::Relaxed);
                *last_fail.lock().unwrap() = Some((sig.clone(), msg.clone()));
                Err(TestCaseError::fail(format!("{sig} :: {msg}")))
            }
        }
    });

    let fail = match result {
        Ok(()) => None,
        Err(TestError::Fail(reason, case)) => {
            // re-evaluate the shrunk case to get its exact signature/message
            let rep = eval_guarded::<C>(&case);
            match rep.outcome {
                Outcome::Fail { sig, msg } => Some((sig, msg, case)),
                Outcome::Pass => {
                    // non-deterministic oracle: report as such, with proptest's reason
                    Some((
                        "nondeterministic".to_string(),
                        format!("case failed during search but passes on re-evaluation: {reason}"),
                        case,
                    ))
                }
            }
        }
        Err(TestError::Abort(reason)) => {
            eprintln!("INCONCLUSIVE: proptest aborted check {}: {reason}", C::NAME);
            std::process::exit(2);
        }
    };
    (stats.into_inner().unwrap(), fail)
}

/// Draw a single value from a strategy with a deterministic rng (used by enumerations/samples).
pub fn sample_one<S: Strategy>(s: &S, seed: u64) -> S::Value {
    let rng = TestRng::from_seed(RngAlgorithm::ChaCha, &sub_seed(seed, "sample", 0));
    let mut runner = TestRunner::new_with_rng(Config::default(), rng);
    s.new_tree(&mut runner).expect("strategy").current()
}

/// Monotone index mapping (keeps proptest shrinking effective): maps a u16 selector onto 0..len.
pub fn pick_index(sel: u16, len: usize) -> usize {
    if len == 0 {
        0
    } else {
        ((sel as usize) * len) >> 16
    }
}

/// Start a watchdog thread: a hang is an inconclusive run (exit 2), never a violation.
pub fn start_watchdog(secs: u64, property: &'static str) {
    std::thread::spawn(move || {
        std::thread::sleep(std::time::Duration::from_secs(secs));
        println!("INCONCLUSIVE property={property} watchdog: run exceeded {secs}s");
        std::process::exit(2);
    });
}

/// Silence the default panic printer (panics of code under test are caught and reported as
/// failures with their message; printing each one during shrinking is noise).
pub fn quiet_panics() {
    install_panic_hook();
}
